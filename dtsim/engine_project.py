"""Engine A - the project simulator (DESIGN §3): executes a scenario (a history of
doctrans operations, environment actions and injected faults over a simulated
project) and evaluates the oracles of C20, C10, C09, C11 and C14.

Execution is a pure function of the scenario JSON and the code under REPO.
"""
import argparse
import ast
import copy
import os
import sys

from dtsim import core, fs, resolver
from dtsim.core import HarnessError, digest, load_doctrans, sha

KINDS = ("argparse_function", "class", "function")
KIND_FLAG = {"argparse_function": "--argparse-function", "class": "--class", "function": "--function"}
NODE_TYPE = {"argparse_function": ast.FunctionDef, "class": ast.ClassDef, "function": ast.FunctionDef}
MAX_VIOLATIONS_PER_RUN = 6

_ns = None


def setup():
    """Install the seams, then import doctrans (in that order)."""
    global _ns
    if _ns is None:
        fs.install()
        _ns = load_doctrans()
        fs.install_step_seam(_ns.pkg_dir)
        fs.wrap_conversions(_ns)
        global _proc
        _proc = fs.ProcState()
    return _ns


# ----------------------------------------------------------------- op -> callable
def _given_path(world, knobs, rel):
    """How the user spells the path of project file `rel` on the command line."""
    style = knobs.get("path_style")
    if style == "tilde":
        return "~/" + rel
    if style == "relative":
        return rel
    if style == "symlink_dir":
        return os.path.join(world.alias_dir(), rel)  # the project directory reached through a symbolic link
    if style == "symlink_file":
        return world.alias_file(rel)  # a symbolic link to the file itself, kept outside the project directory
    return world.path(rel)


def sync_argv(world, knobs, op):
    argv = ["sync", "--truth", op["truth"]]
    for kind in KINDS:
        t = op["targets"].get(kind)
        if not t:
            continue
        for f in t["files"]:
            argv += [KIND_FLAG[kind], _given_path(world, knobs, f)]
        argv += [KIND_FLAG[kind] + "-name", t["name"]]
    return argv


def sync_namespace(world, knobs, op):
    d = {"truth": op["truth"]}
    for kind in KINDS:
        t = op["targets"].get(kind)
        plural = {"argparse_function": "argparse_functions", "class": "classes", "function": "functions"}[kind]
        d[plural] = [_given_path(world, knobs, f) for f in t["files"]] if t else None
        d[kind + "_names"] = [t["name"]] if t else None
    return argparse.Namespace(**d)


def make_callable(ns, world, knobs, op):
    kind = op["op"]
    if kind == "sync":
        if op.get("via", "cli") == "cli":
            argv = sync_argv(world, knobs, op)
            return lambda: ns.main.main(argv)
        nspace = sync_namespace(world, knobs, op)
        # what __main__ would pass: the real path of the first file of the truth kind
        # (through the API the truth need not be the first file listed for its kind: op["truth_pos"])
        truth_file = world.path(op["targets"][op["truth"]]["files"][op.get("truth_pos", 0)])
        return lambda: ns.conformance.ground_truth(nspace, truth_file)
    if kind == "sync_properties":
        # the two modules may be reached through symbolic links, too (other spellings are `sync`'s subject)
        sp_path = (lambda rel: _given_path(world, knobs, rel)) if knobs.get("path_style") in ("symlink_dir", "symlink_file") else world.path
        if op.get("via", "cli") == "cli":
            argv = ["sync_properties", "--input-filename", sp_path(op["input"]), "--output-filename", sp_path(op["output"])]
            for a, b in op["pairs"]:
                argv += ["--input-param", a, "--output-param", b]
            if op.get("eval"):
                argv.append("--input-eval")
            if op.get("wrap"):
                argv += ["--output-param-wrap", op["wrap"]]
            return lambda: ns.main.main(argv)
        return lambda: ns.sp.sync_properties(
            input_eval=bool(op.get("eval")), input_filename=sp_path(op["input"]),
            input_params=[a for a, _ in op["pairs"]], output_filename=sp_path(op["output"]),
            output_params=[b for _, b in op["pairs"]], output_param_wrap=op.get("wrap"))
    if kind == "gen":
        argv = ["gen", "--name-tpl", op["name_tpl"], "--input-mapping", op["mapping"], "--type", op["type"],
                "--output-filename", world.path(op["output"])]
        if op.get("prepend") is not None:
            argv += ["--prepend", op["prepend"]]
        if op.get("imports_from_file"):
            argv += ["--imports-from-file", world.path(op["imports_from_file"])]
        if op.get("emit_call"):
            argv.append("--emit-call")
        for deco in op.get("decorators") or ():
            argv += ["--decorator", deco]
        return lambda: ns.main.main(argv)
    if kind == "cli":
        argv = [a.replace("<W>", world.root) for a in op["argv"]]
        return lambda: ns.main.main(argv)
    raise HarnessError("unknown op %r" % (kind,))


def named_files(op):
    """rel paths named on the command line of this op"""
    k = op["op"]
    if k == "sync":
        return sorted({f for t in op["targets"].values() if t for f in t["files"]})
    if k == "sync_properties":
        return sorted({op["input"], op["output"]})
    if k == "gen":
        return [op["output"]]
    if k == "cli":
        return sorted(op.get("files", []))
    return []


_proc = None  # fs.ProcState baseline, captured by setup()


def is_cli_op(op):
    """Does this operation run as its own OS process (a command-line invocation) or inside the user's long-lived
    process (an API call)?"""
    return op["op"] in ("cli", "gen") or op.get("via", "cli") == "cli"


def run_op(ns, world, knobs, op, fault=None, record_steps=False, real_kill=False, where="here", fresh=False):
    """where='fork': run the operation in a forked child (a separate OS process; with fresh=True the child first
    returns the doctrans package to its import-time state, i.e. it is a *new* process).  where='here': run it in this
    process, whose module-level state therefore carries over to the next in-process operation."""
    if where == "fork" and op.get("hashseed") is not None and knobs.get("processes") == "spawn":
        return run_spawned(world, knobs, op, fault)
    if where == "fork":
        def child():
            if fresh and _proc is not None:
                _proc.restore_baseline()
            out, sim = run_op(ns, world, knobs, op, fault=fault, record_steps=record_steps, real_kill=real_kill)
            return out, fs.SimResult(sim)

        return fs.run_forked(child)
    sim = fs.Sim(world, fault=fault, bufsize=knobs.get("bufsize", 8192), record_steps=record_steps, real_kill=real_kill)
    fn = make_callable(ns, world, knobs, op)
    style = knobs.get("path_style")
    outcome = fs.run_process(ns, sim, fn, cwd=world.root if style == "relative" or op["op"] == "gen" or op.get("cwd_world") else None,
                             home=world.root if style == "tilde" or op.get("home_world") else None,
                             extra_path=world.root if op["op"] == "gen" or op.get("path_world") else None)
    ret = outcome.pop("ret")
    report = None
    if op["op"] == "sync" and hasattr(ret, "items"):
        report = []
        for k, v in ret.items():
            k = os.path.realpath(k)
            report.append([world.rel(k) if k.startswith(world.root + os.sep) else k, bool(v)])
    outcome["report"] = report
    return outcome, sim


def run_spawned(world, knobs, op, fault=None):
    """The operation in a freshly started interpreter (same seams, same simulator) whose PYTHONHASHSEED is op['hashseed']:
    what a command-line invocation is for a user who has not pinned the hash seed."""
    import json
    import pickle
    import subprocess

    tf = world.root + ".spawn.json"
    with fs._orig_open(tf, "wt") as f:
        json.dump({"root": world.root, "knobs": knobs, "op": op, "fault": fault}, f)
    try:
        extra = {"PYTHONOPTIMIZE": "1"} if sys.flags.optimize else None
        p = subprocess.run([core.PYTHON, "-W", "ignore", core.LAUNCHER, "worker", "spawned", tf], env=core.worker_env(hashseed=op["hashseed"], extra=extra),
                           cwd=core.VERIF, stdout=subprocess.PIPE, stderr=subprocess.PIPE, timeout=120)
        if p.returncode != 0 or not os.path.exists(tf + ".out"):
            raise core.HarnessError("spawned interpreter failed (rc=%s): %s" % (p.returncode, p.stderr.decode(errors="replace")[-600:]))
        with fs._orig_open(tf + ".out", "rb") as f:
            return pickle.load(f)
    finally:
        for x in (tf, tf + ".out"):
            try:
                os.remove(x)
            except OSError:
                pass


def spawned_child(path):
    """Child side of run_spawned."""
    import json
    import pickle

    with fs._orig_open(path) as f:
        task = json.load(f)
    ns = setup()
    world = fs.World(attach=task["root"])
    out, sim = run_op(ns, world, task["knobs"], task["op"], fault=task["fault"])
    with fs._orig_open(path + ".out", "wb") as f:
        pickle.dump((out, fs.SimResult(sim)), f)


# ---------------------------------------------------------------------- helpers
def _text(data):
    try:
        return data.decode("utf-8")
    except UnicodeDecodeError:
        return None


def _tree(data):
    if data is None:
        return None
    t = _text(data)
    if t is None:
        return None
    try:
        return ast.parse(t)
    except (SyntaxError, ValueError):
        return None


def target_kind(kind, name):
    if kind == "function":
        return "method" if "." in name else "function"
    if kind == "class" and "." in name:
        return "nested-class"
    return {"class": "class", "argparse_function": "argparse"}[kind]


def _truth_info(op, snap):
    t = op["targets"].get(op["truth"])
    if not t:
        return None
    tf = t["files"][op.get("truth_pos", 0) if op.get("via") == "api" else 0]
    tree = _tree(snap.get(tf))
    if tree is None:
        return {"file": tf, "node": None}
    res = resolver.resolve(tree, t["name"].split("."))
    node = res["node"] if res else None
    if node is not None and not isinstance(node, NODE_TYPE[op["truth"]]):
        node = None
    return {"file": tf, "node": node, "names": resolver.interface_names(node, op["truth"]),
            "details": resolver.interface_details(node, op["truth"])}


def _defaults_of(details, names):
    out = []
    for n in names or []:
        d = (details.get(n) or {}).get("default")
        out.append(None if d is None else d.get("v", d.get("code")))
    return out


def pre_state(kind, name, data, truth):
    """missing | empty | unparseable | absent | stale | agree"""
    if data is None:
        return "missing"
    text = _text(data)
    if text is not None and not text.strip():
        return "empty"
    tree = _tree(data)
    if tree is None:
        return "unparseable"
    res = resolver.resolve(tree, name.split("."))
    if res is None or not isinstance(res["node"], NODE_TYPE[kind]):
        return "absent"
    if truth is None or truth.get("node") is None:
        return "stale"
    names = resolver.interface_names(res["node"], kind)
    if names != truth["names"]:
        return "stale"
    mine = _defaults_of(resolver.interface_details(res["node"], kind), names)
    theirs = _defaults_of(truth["details"], truth["names"])
    # a parameter without default legitimately acquires a default in other kinds: only compare where both have one
    for a, b in zip(mine, theirs):
        if b is not None and not (type(a) is type(b) and a == b):
            return "stale"
    return "agree"


def has_return_entry(node, kind):
    """Does the truth definition carry a return entry?  (judged on the plain syntax tree)"""
    if node is None:
        return None
    if kind == "class":
        return any("return_type" in resolver._targets(s) for s in node.body)
    if getattr(node, "returns", None) is not None:
        return True
    for s in node.body:
        if isinstance(s, ast.Return) and s.value is not None:
            if kind == "argparse_function":
                return isinstance(s.value, ast.Tuple)
            return True
    return False


def enclosing_state(kind, name, data):
    """For a method / nested-class target: does the file define the enclosing class?  (present | absent | n/a)"""
    if kind not in ("function", "class") or "." not in name:
        return None
    tree = _tree(data)
    if tree is None:
        return "absent"
    res = resolver.resolve(tree, name.split(".")[:-1])
    return "present" if res is not None and isinstance(res["node"], ast.ClassDef) else "absent"


def write_path(pre):
    return {"missing": "create", "empty": "append", "absent": "append", "unparseable": "error"}.get(pre, "replace")


def iter_targets(op):
    for kind in KINDS:
        t = op["targets"].get(kind)
        if t:
            for f in t["files"]:
                yield kind, t["name"], f


def is_truth_target(op, kind, f):
    t = op["targets"].get(op["truth"])
    return bool(t) and kind == op["truth"] and f == t["files"][op.get("truth_pos", 0) if op.get("via") == "api" else 0]


# --------------------------------------------------------------------- violations
def viol(prop, oracle, op, detail, **sig):
    s = {"property": prop, "oracle": oracle, "op": op["op"]}
    if sys.flags.optimize:
        s["python_O"] = True
    if op["op"] == "sync":
        s["truth"] = op["truth"]
        s["via"] = op.get("via", "cli")
        s["nkinds"] = sum(1 for k in KINDS if op["targets"].get(k))
    s.update({k: v for k, v in sig.items() if v is not None})
    return {"property": prop, "oracle": oracle, "sig": s, "detail": detail}


# ----------------------------------------------------------------- fault-free oracles
def oracles_sync(op, S0, S1, out, hist, stats):
    """C10 R1-R3, C09 A0-A2, C11, C20-O4 for one fault-free sync."""
    v = []
    truth = _truth_info(op, S0)
    truth_ok = truth is not None and truth.get("node") is not None
    pres = {}
    for kind, name, f in iter_targets(op):
        pres[(kind, f)] = pre_state(kind, name, S0.get(f), truth)
    stats["sync_ops"] = stats.get("sync_ops", 0) + 1
    for (kind, f), p in pres.items():
        cell = "%s|%s|%s|%s" % (op["truth"], target_kind(kind, op["targets"][kind]["name"]), p, op.get("via", "cli"))
        stats.setdefault("prestate_cells", {})
        stats["prestate_cells"][cell] = stats["prestate_cells"].get(cell, 0) + 1

    if out["status"] != "ok":
        if truth_ok and out["status"] in ("exc", "exit"):
            # which target was it working on?  the first one (in doctrans' iteration order) not yet in its final state
            culprit = None
            for kind, name, f in iter_targets(op):
                if is_truth_target(op, kind, f):
                    continue
                culprit = (kind, name, f)
                if S0.get(f) == S1.get(f) and pres[(kind, f)] not in ("agree",):
                    break
            ck, cn, cf = culprit if culprit else (op["truth"], "", "")
            common = dict(exc=out.get("exc", "exit%s" % out.get("code")), site=out.get("site"),
                          target_kind=target_kind(ck, cn) if culprit else None, pre_state=pres.get((ck, cf)),
                          has_returns=has_return_entry(truth.get("node"), op["truth"]))
            v.append(viol("C20", "O4-accepted-not-carried-out", op,
                          "fault-free sync ended with %s %s at %s: %s" % (out["status"], out.get("exc", out.get("code")), out.get("site"), out.get("msg", out.get("stderr", ""))[:200]),
                          **common))
            v.append(viol("C09", "A0-sync-failed", op, "sync did not complete: %s %s" % (out.get("exc", out.get("code")), out.get("msg", "")[:200]), **common))
        return v

    # ---- C10 R2: truth untouched
    truth_also_target = truth is not None and any(ff == truth["file"] and k != op["truth"] for k, _n, ff in iter_targets(op))
    if truth is not None and not truth_also_target and S0.get(truth["file"]) != S1.get(truth["file"]):
        v.append(viol("C10", "R2-truth-modified", op, "the truth file %s was modified by a sync naming it as truth" % truth["file"],
                      target_kind=target_kind(op["truth"], op["targets"][op["truth"]]["name"])))

    # ---- C10 R1: truthful report
    changed = {f for f in set(S0) | set(S1) if S0.get(f) != S1.get(f)}
    if out.get("report") is not None:
        rep = {}
        for f, flag in out["report"]:
            rep[f] = flag
        for kind, name, f in iter_targets(op):
            if f not in rep:
                v.append(viol("C10", "R1-report-missing-file", op, "file %s is not in the returned report" % f,
                              target_kind=target_kind(kind, name), pre_state=pres[(kind, f)]))
                continue
            if rep[f] != (f in changed):
                nk = len([1 for _k, _n, ff in iter_targets(op) if ff == f])
                v.append(viol("C10", "R1-report-flag", op,
                              "report says %s for %s but its bytes %s" % ("modified" if rep[f] else "unchanged", f, "changed" if f in changed else "did not change"),
                              target_kind=target_kind(kind, name), pre_state=pres[(kind, f)],
                              says="modified" if rep[f] else "unchanged", is_truth_file=is_truth_target(op, kind, f),
                              file_named_under_kinds=nk if nk > 1 else None))
    unrecognised = 0
    printed = {}
    for line in out.get("stdout", "").splitlines():
        parts = line.split("\t")
        if len(parts) == 2 and parts[0] in ("modified", "unchanged") and parts[1].startswith("<W>/"):
            # a file named under two kinds gets one line per kind: it counts as reported modified if any line says so
            printed[parts[1][4:]] = printed.get(parts[1][4:], False) or parts[0] == "modified"
        elif line.strip():
            unrecognised += 1
    for f, says in sorted(printed.items()):
        if says != (f in changed):
            kn = [(k, n) for k, n, ff in iter_targets(op) if ff == f]
            k0, n0 = kn[0] if kn else (op["truth"], "")
            word = "modified" if says else "unchanged"
            v.append(viol("C10", "R1-printed-flag", op, "stdout says %r for %s but its bytes %s" % (word, f, "changed" if f in changed else "did not change"),
                          target_kind=target_kind(k0, n0), pre_state=pres.get((k0, f)), says=word,
                          is_truth_file=is_truth_target(op, k0, f)))
    stats["stdout_lines_unrecognised"] = stats.get("stdout_lines_unrecognised", 0) + unrecognised

    # ---- C10 R3: idempotence (same invocation as the previous op, nothing in between)
    prev = hist.get("prev")
    if prev and prev["spec"] == op_spec(op) and prev["ok"]:
        stats["r3_checked"] = stats.get("r3_checked", 0) + 1
        for f in sorted(changed):
            kn = [(k, n) for k, n, ff in iter_targets(op) if ff == f]
            k0, n0 = kn[0] if kn else (op["truth"], "")
            v.append(viol("C10", "R3-not-idempotent", op, "second identical sync changed %s (%d -> %d bytes)" % (f, len(S0.get(f) or b""), len(S1.get(f) or b"")),
                          target_kind=target_kind(k0, n0), pre_state=pres.get((k0, f)), grew=len(S1.get(f) or b"") > len(S0.get(f) or b""),
                          enclosing=enclosing_state(k0, n0, S0.get(f))))
    # ---- C10 R4: within a run of syncs without edits (any mix of commands)
    #   R4a: if nothing at all changed since the previous execution of this same command, it must change nothing now;
    #   R4b: a file must not grow at three consecutive executions of the same command (a definition appended again on every run).
    # Oscillation between *different* truths is deliberately not flagged: with F01 open, function-kind targets are never
    # updated, so alternating truths can legitimately never agree.
    quiet = hist.setdefault("quiet", {})
    key = digest(op_spec(op))
    q = quiet.setdefault(key, {"n": 0, "after": None, "sizes": {}})
    q["n"] += 1
    if q["after"] is not None:
        stats["r4_checked"] = stats.get("r4_checked", 0) + 1
        if q["after"] == {f: sha(d) for f, d in S0.items()}:
            for f in sorted(changed):
                kn = [(k, n) for k, n, ff in iter_targets(op) if ff == f]
                k0, n0 = kn[0] if kn else (op["truth"], "")
                v.append(viol("C10", "R4-no-convergence", op, "execution #%d of the same sync, with the project exactly as its previous execution left it, changed %s" % (q["n"], f),
                              target_kind=target_kind(k0, n0), pre_state=pres.get((k0, f)), grew=len(S1.get(f) or b"") > len(S0.get(f) or b""),
                              enclosing=enclosing_state(k0, n0, S0.get(f))))
    for kind, name, f in iter_targets(op):
        sz = q["sizes"].setdefault(f, [])
        sz.append(len(S1.get(f) or b""))
        if len(sz) >= 4 and sz[-4] < sz[-3] < sz[-2] < sz[-1]:
            v.append(viol("C10", "R4-growth", op, "%s grew at three consecutive executions of the same sync without any edit in between (%s bytes)" % (f, sz[-4:]),
                          target_kind=target_kind(kind, name), pre_state=pres.get((kind, f)), grew=True, enclosing=enclosing_state(kind, name, S0.get(f))))
    q["after"] = {f: sha(d) for f, d in S1.items()}

    # ---- C09 A1/A2 and C11 per target
    for kind, name, f in iter_targets(op):
        tk = target_kind(kind, name)
        pre = pres[(kind, f)]
        path = name.split(".")
        after = S1.get(f)
        is_truth = is_truth_target(op, kind, f)
        common = dict(target_kind=tk, pre_state=pre, write=write_path(pre))
        t_after = _tree(after)
        if after is None:
            v.append(viol("C09", "A1-missing", op, "target %s does not exist after sync" % f, **common))
            continue
        if t_after is None:
            v.append(viol("C11", "P-unparseable", op, "target %s does not parse after sync" % f, **common))
            v.append(viol("C09", "A1-unparseable", op, "target %s does not parse after sync" % f, **common))
            continue
        res = resolver.resolve(t_after, path)
        node = res["node"] if res else None
        if node is None or not isinstance(node, NODE_TYPE[kind]):
            v.append(viol("C09", "A1-not-found", op, "definition %s not found at its location in %s after sync" % (name, f), **common))
        elif truth_ok and not is_truth:
            stats["a2_checked"] = stats.get("a2_checked", 0) + 1
            names = resolver.interface_names(node, kind)
            if names != truth["names"]:
                v.append(viol("C09", "A2-names", op, "%s in %s has parameters %r, truth has %r" % (name, f, names, truth["names"]), **common))
            else:
                mine = _defaults_of(resolver.interface_details(node, kind), names)
                theirs = _defaults_of(truth["details"], truth["names"])
                for nme, a, b in zip(names, mine, theirs):
                    if b is not None and a != b and not (a is None and b is None):
                        # explicit default of the truth must be carried (value and type)
                        if not (type(a) is type(b) and a == b):
                            dkind = "%s%s->%s" % (type(b).__name__, "-empty" if b == "" and isinstance(b, str) else "", type(a).__name__)
                            in_quotes = True if isinstance(b, str) and len(b) >= 2 and b[0] == b[-1] and b[0] in "'\"" else None
                            v.append(viol("C09", "A2-default", op, "%s.%s default is %r, truth says %r" % (name, nme, a, b), dkind=dkind, truth_default_in_quotes=in_quotes, **common))
                            break
            # prose clause, judged independently of doctrans' own docstring parsers (A3 below is differential and cannot see
            # prose that the truth's *parser* already loses): what the truth says about a parameter, the target says too
            if names == truth["names"]:
                tp, mp = resolver.interface_prose(truth["node"], op["truth"]), resolver.interface_prose(node, kind)
                if tp is not None and mp is not None:
                    stats["a2_prose_checked"] = stats.get("a2_prose_checked", 0) + 1
                    for nme in names:
                        want, have = resolver.norm_prose(tp.get(nme)), resolver.norm_prose(mp.get(nme))
                        if want and want != have:
                            b0 = _tree(S0.get(f))
                            r0 = resolver.resolve(b0, path) if b0 is not None else None
                            rewritten = r0 is None or not isinstance(r0["node"], NODE_TYPE[kind]) or resolver.norm_dump(r0["node"]) != resolver.norm_dump(node)
                            if rewritten:
                                v.append(viol("C09", "A2-prose", op, "%s.%s is described as %r, the truth says %r" % (name, nme, have, want), lost=not have, **common))
                            break
            # types clause, judged independently where both sides spell the type as an annotation (class attribute <-> function
            # parameter): the annotation text is the same modulo quotes and white space
            if names == truth["names"] and op["truth"] in ("class", "function") and kind in ("class", "function") and kind != op["truth"]:
                td, md = truth["details"], resolver.interface_details(node, kind)
                for nme in names:
                    want, have = (td.get(nme) or {}).get("typ"), (md.get(nme) or {}).get("typ")
                    if want and have and _ws(want) != _ws(have):
                        b0 = _tree(S0.get(f))
                        r0 = resolver.resolve(b0, path) if b0 is not None else None
                        if r0 is None or not isinstance(r0["node"], NODE_TYPE[kind]) or resolver.norm_dump(r0["node"]) != resolver.norm_dump(node):
                            stats["a2_type_mismatch"] = stats.get("a2_type_mismatch", 0) + 1
                            v.append(viol("C09", "A2-type", op, "%s.%s is annotated %s, the truth says %s" % (name, nme, have, want), tchange="%s->%s" % (want.split("[")[0], have.split("[")[0]), **common))
                        break
            # A3 only where sync actually wrote the definition (F01: existing function-kind targets are never rewritten)
            b_tree0 = _tree(S0.get(f))
            rb0 = resolver.resolve(b_tree0, path) if b_tree0 is not None else None
            definition_written = rb0 is None or not isinstance(rb0["node"], NODE_TYPE[kind]) or resolver.norm_dump(rb0["node"]) != resolver.norm_dump(node)
            if before_bytes_differ(S0, S1, f) and definition_written:
                ftype = None
                b_tree = _tree(S0.get(f))
                if b_tree is not None and kind != "class":
                    rb = resolver.resolve(b_tree, path)
                    if rb is not None and isinstance(rb["node"], ast.FunctionDef):
                        a0 = rb["node"].args.args[0].arg if rb["node"].args.args else None
                        ftype = a0 if a0 in ("self", "cls") else "static"
                st, detail = a3_check(op, kind, name, node, op["truth"], truth["node"], ftype)
                stats.setdefault("a3", {})
                stats["a3"][st.split(":")[0]] = stats["a3"].get(st.split(":")[0], 0) + 1
                if detail is not None:
                    v.append(viol("C09", "A3-" + st, op, "%s in %s: %s" % (name, f, detail), **common))
            # C11, last clause, for a function that sync itself wrote from a function: the statements of the truth
            # that are not part of its interface are in the synchronised function (same short name, both plain functions
            # or both methods - the case in which a function is a copy of the truth rather than a fresh stub)
            if (op["truth"] == "function" and kind == "function" and before_bytes_differ(S0, S1, f) and definition_written
                    and isinstance(truth["node"], ast.FunctionDef)):
                tname = op["targets"]["function"]["name"]
                if tname.split(".")[-1] == path[-1] and ("." in tname) == ("." in name):
                    stats["c11_body_carried_checked"] = stats.get("c11_body_carried_checked", 0) + 1
                    tb = resolver.body_statements(truth["node"])
                    if tb and not _subsequence(tb, resolver.body_statements(node)):
                        have = set(resolver.body_statements(node))
                        tbody = [s for s in truth["node"].body if ast.dump(s) in set(tb)]
                        lost = [s for s in tbody if ast.dump(s) not in have]
                        # which statements are missing: only a final `return <string literal>` (re-created from the return
                        # entry of the description), or anything else
                        only_str_return = bool(lost) and all(isinstance(s, ast.Return) and isinstance(s.value, ast.Constant) and isinstance(s.value.value, str) for s in lost)
                        v.append(viol("C11", "B-body-not-carried", op, "%s in %s: statements of the truth function that are not part of its interface are missing from the function sync wrote: %s" % (
                            name, f, "; ".join(ast.unparse(s) for s in lost)[:160]), lost="return-of-str-literal" if only_str_return else "other", **common))
        # C11 - conservation of everything else
        before = S0.get(f)
        if before is not None and before != after and not is_truth:
            t_before = _tree(before)
            if t_before is not None:
                stats["c11_checked"] = stats.get("c11_checked", 0) + 1
                others = [n.split(".") for k, n, ff in iter_targets(op) if ff == f and (k, n) != (kind, name)]
                v += c11_compare(op, f, path, kind, t_before, t_after, common, stats, also_named=others)
    return v


# ---------------------------------------------------------------- C09 A3 (types, prose, defaults, return entry)
def _dt_parse(kind, node):
    """doctrans' own parser of `kind` applied to a fresh copy of `node`"""
    node = copy.deepcopy(node)
    p = _ns.parse
    if kind == "class":
        return p.class_(node)
    if kind == "argparse_function":
        return p.argparse_ast(node)
    return p.function(node)


def _dt_emit(kind, ir, name, ftype):
    e = _ns.emit
    ir = copy.deepcopy(ir)
    if kind == "class":
        return e.class_(ir, class_name=name.split(".")[-1])
    if kind == "argparse_function":
        return e.argparse_function(ir, function_name=name.split(".")[-1], function_type=ftype)
    return e.function(ir, function_name=name.split(".")[-1], function_type=ftype)


def _iface(ir):
    """The comparable part of an IR: summary, parameters (typ / doc / default with type), return entry."""
    def entry(d):
        d = d or {}
        typ = "".join((d.get("typ") or "").replace('"', "'").split())
        doc = " ".join((d.get("doc") or "").split())
        dv = d.get("default", "<absent>")
        return [typ, doc, [type(dv).__name__, dv if isinstance(dv, (str, int, float, bool)) or dv is None else repr(dv)]]

    out = {"doc": " ".join((ir.get("doc") or "").split()), "params": [[n, entry(d)] for n, d in (ir.get("params") or {}).items()]}
    r = (ir.get("returns") or {}).get("return_type") if ir.get("returns") else None
    out["returns"] = entry(r) if r else None
    return out


def a3_check(op, kind, name, target_node, truth_kind, truth_node, ftype):
    """A3: what sync left in the target file must describe the same interface as the in-memory pipeline
    parse_target(emit_target(parse_truth(truth))) - i.e. going through files adds no loss or change beyond the
    in-memory conversion (DESIGN §3.4).  Returns (status, detail)."""
    try:
        truth_ir = _dt_parse(truth_kind, truth_node)
        ref_node = _dt_emit(kind, truth_ir, name, ftype)
        ref_node = ast.parse(_ns.st.to_code(ref_node)).body[0]
        ref_ir = _dt_parse(kind, ref_node)
    except Exception as e:
        return "skipped-reference-raises:%s" % type(e).__name__, None
    try:
        got_ir = _dt_parse(kind, target_node)
    except Exception as e:
        return "target-unparseable-by-doctrans", "doctrans' own %s parser raises %s on the synchronised target" % (kind, type(e).__name__)
    a, b = _iface(got_ir), _iface(ref_ir)
    if a == b:
        return "ok", None
    if [n for n, _ in a["params"]] != [n for n, _ in b["params"]]:
        return "names", "parameters %r, in-memory reference %r" % ([n for n, _ in a["params"]], [n for n, _ in b["params"]])
    for (n, x), (_, y) in zip(a["params"], b["params"]):
        for idx, what in ((0, "type"), (1, "prose"), (2, "default")):
            if x[idx] != y[idx]:
                return what, "%s: %s %r in the file, %r by the in-memory conversion" % (n, what, x[idx], y[idx])
    if a["returns"] != b["returns"]:
        return "returns", "return entry %r in the file, %r by the in-memory conversion" % (a["returns"], b["returns"])
    return "summary", "summary %r in the file, %r by the in-memory conversion" % (a["doc"], b["doc"])


def c11_after_fault(op, S0, S1, SF, simF, stats):
    """C11 also has to hold for whatever a *failed* sync leaves behind: a target whose bytes changed must still carry
    every other statement (a file equal to the fault-free result is covered by the fault-free check)."""
    v = []
    truth = _truth_info(op, S0)
    for kind, name, f in iter_targets(op):
        a, b, c = S0.get(f), S1.get(f), SF.get(f)
        if a is None or c is None or c == a or c == b or is_truth_target(op, kind, f):
            continue
        t_before, t_after = _tree(a), _tree(c)
        if t_before is None:
            continue
        pre = pre_state(kind, name, a, truth)
        common = dict(target_kind=target_kind(kind, name), pre_state=pre, write=write_path(pre), fault=simF.fired["kind"], seam=simF.fired["event_kind"])
        stats["c11_checked_after_fault"] = stats.get("c11_checked_after_fault", 0) + 1
        if t_after is None:
            v.append(viol("C11", "P-unparseable", op, "target %s does not parse after a failed sync (%s at %s)" % (f, simF.fired["kind"], simF.fired["event_kind"]), **common))
            continue
        others = [n.split(".") for k, n, ff in iter_targets(op) if ff == f and (k, n) != (kind, name)]
        v += c11_compare(op, f, name.split("."), kind, t_before, t_after, common, stats, also_named=others)
    return v


def c09_after_swallowed_fault(op, S0, SF, simF, stats):
    """A sync that returns normally tells its caller that every target now agrees with the truth.  If an injected
    fault was swallowed on the way, that claim still has to be true (A1 / A2 on the state it left)."""
    v = []
    truth = _truth_info(op, S0)
    if truth is None or truth.get("node") is None:
        return v
    stats["swallowed_faults_checked"] = stats.get("swallowed_faults_checked", 0) + 1
    for kind, name, f in iter_targets(op):
        if is_truth_target(op, kind, f):
            continue
        pre = pre_state(kind, name, S0.get(f), truth)
        if pre == "stale" and kind != "class":
            continue  # F01: existing function-kind targets are never rewritten, fault or no fault
        if kind in ("function", "class") and "." in name and pre in ("missing", "empty", "absent"):
            continue  # F02
        common = dict(target_kind=target_kind(kind, name), pre_state=pre, write=write_path(pre), fault=simF.fired["kind"], seam=simF.fired["event_kind"], swallowed=True)
        data = SF.get(f)
        tree = _tree(data)
        if data is None or tree is None:
            v.append(viol("C09", "A1-missing" if data is None else "A1-unparseable", op, "sync returned normally although a %s at %s had fired, yet target %s %s" % (
                simF.fired["kind"], simF.fired["event_kind"], f, "does not exist" if data is None else "does not parse"), **common))
            continue
        res = resolver.resolve(tree, name.split("."))
        node = res["node"] if res else None
        if node is None or not isinstance(node, NODE_TYPE[kind]):
            v.append(viol("C09", "A1-not-found", op, "sync returned normally although a %s at %s had fired, yet %s is not in %s" % (simF.fired["kind"], simF.fired["event_kind"], name, f), **common))
        elif resolver.interface_names(node, kind) != truth["names"]:
            v.append(viol("C09", "A2-names", op, "sync returned normally although a %s at %s had fired, yet %s in %s has parameters %r, truth has %r" % (
                simF.fired["kind"], simF.fired["event_kind"], name, f, resolver.interface_names(node, kind), truth["names"]), **common))
    return v


def before_bytes_differ(S0, S1, f):
    return S0.get(f) != S1.get(f)


def _without(tree, paths):
    """A copy of `tree` without the top-level statements at which the given (other) named definitions of the same
    operation live: they may legitimately be replaced or added by the same sync."""
    idx = set()
    for p in paths:
        r = resolver.resolve(tree, p)
        if r is not None:
            idx.add(r["chain"][0][1])
    if not idx:
        return tree
    t = copy.copy(tree)
    t.body = [s for i, s in enumerate(tree.body) if i not in idx]
    return t


def c11_compare(op, f, path, kind, t_before, t_after, common, stats, also_named=()):
    v = []
    if also_named:
        t_before, t_after = _without(t_before, also_named), _without(t_after, also_named)
    sb = resolver.surroundings(t_before, path)
    sa = resolver.surroundings(t_after, path)
    nb = len(sb["top"])
    cell = "%s|%s|before=%d|after=%d" % (common["target_kind"], common["write"], (sb["index"] if sb["index"] is not None else nb),
                                         nb - (sb["index"] if sb["index"] is not None else nb))
    stats.setdefault("c11_cells", {})
    stats["c11_cells"][cell] = stats["c11_cells"].get(cell, 0) + 1
    if sb["found"]:
        if not sa["found"]:
            v.append(viol("C11", "S-definition-lost", op, "%s: the named definition is gone after the rewrite" % f, **common))
            return v
        if sa["top"] != sb["top"]:
            v.append(viol("C11", "S-top-level", op, "%s: other top-level statements changed (%s)" % (f, _first_diff(sb["top"], sa["top"])), **common))
        elif sa["index"] != sb["index"]:
            v.append(viol("C11", "S-moved", op, "%s: the named definition moved from position %s to %s" % (f, sb["index"], sa["index"]), **common))
        if sb.get("class_header") != sa.get("class_header"):
            v.append(viol("C11", "S-class-header", op, "%s: header of the enclosing class changed" % f, **common))
        if sb.get("siblings") is not None and sa.get("siblings") != sb.get("siblings"):
            v.append(viol("C11", "S-siblings", op, "%s: sibling members changed (%s)" % (f, _first_diff(sb["siblings"], sa["siblings"] or [])), **common))
        elif sb.get("siblings") is not None and sa.get("member_index") != sb.get("member_index"):
            v.append(viol("C11", "S-moved", op, "%s: the named member moved inside its class" % f, **common))
        # last clause: non-interface statements of a synchronised function survive
        if kind != "class":
            b_node = resolver.resolve(t_before, path)["node"]
            a_node = resolver.resolve(t_after, path)["node"]
            bb, ab = resolver.body_statements(b_node), resolver.body_statements(a_node)
            if kind == "function" and not _subsequence(bb, ab):
                v.append(viol("C11", "B-body-lost", op, "%s: statements inside the synchronised function did not survive" % f, **common))
    else:
        # definition was absent: it may only be *added*; nothing else may change
        if sa["found"]:
            if len(path) == 1:
                if sa["top"] != sb["top"]:
                    v.append(viol("C11", "S-top-level", op, "%s: appending the definition changed other statements (%s)" % (f, _first_diff(sb["top"], sa["top"])), **common))
                elif sa["index"] != nb:
                    v.append(viol("C11", "S-not-appended", op, "%s: new definition inserted at %s, not appended at %d" % (f, sa["index"], nb), **common))
            else:
                # a member added to an existing class (or the whole class added)
                if sb.get("siblings") is not None:
                    if sa.get("siblings") != sb["siblings"]:
                        v.append(viol("C11", "S-siblings", op, "%s: adding the member changed its siblings" % f, **common))
                    top_b = [d for i, d in enumerate(sb["top"]) if i != sb.get("enclosing_index")]
                    if sa["top"] != top_b:
                        v.append(viol("C11", "S-top-level", op, "%s: adding the member changed other top-level statements" % f, **common))
                elif sa["top"] != sb["top"]:
                    v.append(viol("C11", "S-top-level", op, "%s: adding the definition changed other statements" % f, **common))
        else:
            # still not found (C09 reports that); nothing that was there may be lost or altered
            if sa["top"][:nb] != sb["top"]:
                v.append(viol("C11", "S-top-level", op, "%s: existing statements changed although the definition was only to be added (%s)" % (f, _first_diff(sb["top"], sa["top"])), **common))
    return v


def _subsequence(a, b):
    it = iter(b)
    return all(x in it for x in a)


def _first_diff(a, b):
    for i, (x, y) in enumerate(zip(a, b)):
        if x != y:
            return "statement %d differs" % i
    return "count %d -> %d" % (len(a), len(b))


def op_spec(op):
    # the same invocation, whether it is made through the command line or through the API
    # (nor does the hash seed of the interpreter that runs it make it another invocation)
    return {k: v for k, v in op.items() if k not in ("fault", "tag", "via", "hashseed")}


# ----------------------------------------------------------------- sync_properties
def _mask_fingerprint(tree, paths):
    """Fingerprint of `tree` with the addressed nodes masked (C14): a list of per-statement dumps in which
    an addressed statement is replaced by a marker and an addressed argument is replaced, together with
    its default, by a marker."""
    tree = resolver._norm_docstrings(tree)  # (a deep copy) docstrings compared modulo black's whitespace normalisation
    for p in paths:
        res = resolver.resolve(tree, p)
        if res is None:
            continue
        node = res["node"]
        container, idx = res["chain"][-1]
        if idx == "arg":
            fn = container
            a = fn.args
            pos = list(getattr(a, "posonlyargs", [])) + list(a.args)
            table = []
            defaults = [None] * (len(pos) - len(a.defaults)) + list(a.defaults)
            for arg, d in zip(pos, defaults):
                table.append(("pos", arg, d))
            if a.vararg:
                table.append(("var", a.vararg, None))
            for arg, d in zip(a.kwonlyargs, a.kw_defaults):
                table.append(("kw", arg, d))
            if a.kwarg:
                table.append(("kwarg", a.kwarg, None))
            canon = []
            for k, arg, d in table:
                if arg is node or getattr(arg, "_masked", False):
                    arg._masked = True
                    canon.append((k, "<MASKED>"))
                else:
                    canon.append((k, ast.dump(arg), None if d is None else ast.dump(d)))
            fn._canon_args = canon
        else:
            container.body[idx] = ast.Expr(ast.Constant("<MASKED>"))
    out = []

    def fp(n):
        if isinstance(n, (ast.FunctionDef, ast.AsyncFunctionDef)) and hasattr(n, "_canon_args"):
            hdr = (n.name, tuple(n._canon_args), ast.dump(n.returns) if n.returns else None, tuple(ast.dump(d) for d in n.decorator_list))
            return ("fn", hdr, tuple(fp(s) for s in n.body))
        if isinstance(n, ast.ClassDef) and any(hasattr(x, "_canon_args") for x in ast.walk(n)):
            c = copy.copy(n)
            body = n.body
            c.body = []
            return ("cls", ast.dump(c), tuple(fp(s) for s in body))
        return ast.dump(n)

    for s in tree.body:
        out.append(fp(s))
    return out


def _addr_kind(r, p):
    if r is None:
        return "unresolved"
    if r["chain"][-1][1] == "arg":
        fn = r["chain"][-1][0]
        kw = any(a is r["node"] for a in fn.args.kwonlyargs)
        return ("method" if len(p) == 3 else "func") + ("-kwonly" if kw else "-arg")
    return "module-assign" if len(p) == 1 else "class-attr"


def oracles_sync_properties(op, S0, S1, out, stats):
    v = []
    stats["sp_ops"] = stats.get("sp_ops", 0) + 1
    tin, tout = _tree(S0.get(op["input"])), _tree(S0.get(op["output"]))
    if tin is None or tout is None:
        return v
    ev = bool(op.get("eval"))
    in_paths = [a.split(".") for a, _ in op["pairs"]]
    out_paths = [b.split(".") for _, b in op["pairs"]]
    r_in = [resolver.resolve(tin, p) for p in in_paths]
    # an output address with an empty component ("Target.", ".Target") names nothing: it does not resolve
    r_out = [None if "" in p else resolver.resolve(tout, p) for p in out_paths]
    resolvable = all(r is not None for r in r_in) and all(r is not None for r in r_out)
    addr_kinds = [_addr_kind(r, p) for r, p in zip(r_out, out_paths)]
    in_kinds = []
    for r, p in zip(r_in, in_paths):
        k = _addr_kind(r, p)
        if r is not None and k in ("module-assign", "class-attr"):
            k += ":" + type(r["node"]).__name__
        in_kinds.append(k)
    combos = ["%s>%s" % (i, o) for i, o in zip(in_kinds, addr_kinds)]
    common = dict(combos=sorted(set(combos)), npairs=len(op["pairs"]), wrap=bool(op.get("wrap")), eval=ev, via=op.get("via", "cli"))
    stats.setdefault("sp_cells", {})
    for c in combos:
        cell = "%s|wrap=%s|eval=%s|pairs=%d" % (c, common["wrap"], ev, common["npairs"])
        stats["sp_cells"][cell] = stats["sp_cells"].get(cell, 0) + 1
    # input bytes invariant, always
    if S0.get(op["input"]) != S1.get(op["input"]):
        v.append(viol("C14", "I-input-modified", op, "the input file was modified", **common))
    if not resolvable:
        if out["status"] == "ok":
            v.append(viol("C14", "E-unresolved-accepted", op, "an address that does not resolve was not reported as an error", **common))
        if S0.get(op["output"]) != S1.get(op["output"]):
            v.append(viol("C14", "E-unresolved-changed-output", op, "an address did not resolve, yet the output file changed", **common))
        return v
    if ev and any(len(p) > 1 for p in in_paths):
        return v  # documented limitation: eval mode only supports top-level input names
    if out["status"] != "ok":
        v.append(viol("C14", "A-resolvable-rejected", op, "every address resolves, yet sync_properties failed: %s %s at %s" % (out.get("exc", out.get("code")), out.get("msg", "")[:160], out.get("site")),
                      exc=out.get("exc", "exit"), site=out.get("site"), **common))
        if out.get("exc") not in ("AssertionError", "NotImplementedError", "LookupError", "KeyError"):
            # those are how sync_properties *reports* an address it cannot apply (C14's subject); anything else is an internal error
            v.append(viol("C20", "O4-accepted-not-carried-out", op, "accepted sync_properties invocation ended with %s at %s" % (out.get("exc", out.get("code")), out.get("site")),
                          exc=out.get("exc", "exit"), site=out.get("site"), **common))
        if S0.get(op["output"]) != S1.get(op["output"]):
            v.append(viol("C14", "E-failed-but-changed-output", op, "sync_properties failed, yet the output file changed", **common))
        return v
    t_after = _tree(S1.get(op["output"]))
    if t_after is None:
        v.append(viol("C14", "P-unparseable", op, "the output file does not parse after sync_properties", **common))
        return v
    stats["sp_checked"] = stats.get("sp_checked", 0) + 1
    # Without eval the addressed node is replaced by the input's node *including its name* (this is what the suite's
    # golden files show: `h: Literal['b']` becomes `f: Literal['a']`); with eval the output keeps its name.
    after_paths = [opath if ev else opath[:-1] + [ip[-1]] for ip, opath in zip(in_paths, out_paths)]
    if len({tuple(p) for p in after_paths}) != len(after_paths) or len({tuple(p) for p in out_paths}) != len(out_paths):
        # two pairs land on one name in one scope (the request itself is ill-formed): nothing can be attributed
        stats["sp_skipped_ambiguous"] = stats.get("sp_skipped_ambiguous", 0) + 1
        return v
    if _mask_fingerprint(tout, out_paths) != _mask_fingerprint(t_after, after_paths):
        v.append(viol("C14", "M-other-nodes-changed", op, "nodes other than the addressed ones changed in the output file", **common))
    # every pair applied: the node at each output address now carries the input's annotation
    for (a, b), ip, opath, apath, ri, combo in zip(op["pairs"], in_paths, out_paths, after_paths, r_in, combos):
        pc = dict(common, combo=combo)
        ra = resolver.resolve(t_after, apath)
        if ra is None:
            v.append(viol("C14", "N-address-gone", op, "after the rewrite nothing resolves at %s (the place of %s)" % (".".join(apath), b), **pc))
            continue
        want = _annotation_of(ri["node"]) if not ev else None
        have = _annotation_of(ra["node"])
        if ev:
            vals = _eval_top(S0.get(op["input"]), a)
            if vals is not None:
                want = "Literal[%s]" % ", ".join(repr(x) for x in vals)
        if want is None:
            continue
        if op.get("wrap"):
            try:
                want = ast.unparse(ast.parse(op["wrap"].format(output_param=want)).body[0].value)
            except Exception:
                continue
        # the default of an addressed *argument* afterwards is the one it had, or the addressed input's own - never a third value
        if not ev and ra["chain"][-1][1] == "arg":
            ro = resolver.resolve(tout, opath)
            old_d = _arg_default(ro) if ro is not None and ro["chain"][-1][1] == "arg" else None
            own_d = _arg_default(ri) if ri["chain"][-1][1] == "arg" else (ast.dump(ri["node"].value) if isinstance(ri["node"], ast.AnnAssign) and ri["node"].value is not None else
                                                                          ast.dump(ri["node"].value) if isinstance(ri["node"], ast.Assign) else None)
            new_d = _arg_default(ra)
            stats["sp_default_checked"] = stats.get("sp_default_checked", 0) + 1
            if new_d is not None and new_d not in (old_d, own_d):
                v.append(viol("C14", "N-default", op, "%s now has a default that is neither its old one nor the default of %s" % (".".join(apath), a), **pc))
        if have is None or _ws(have) != _ws(want):
            v.append(viol("C14", "N-annotation", op, "%s carries annotation %r, expected %r from %s" % (".".join(apath), have, want, a), **pc))
        elif not ev and isinstance(ri["node"], ast.AnnAssign) and isinstance(ra["node"], ast.AnnAssign):
            # statement replaced by statement: "the one addressed in the input file", i.e. its value too
            vi = None if ri["node"].value is None else ast.dump(ri["node"].value)
            va = None if ra["node"].value is None else ast.dump(ra["node"].value)
            stats["sp_value_checked"] = stats.get("sp_value_checked", 0) + 1
            if vi != va:
                v.append(viol("C14", "N-value", op, "%s = %s, the input's %s has the value %s" % (
                    ".".join(apath), None if ra["node"].value is None else ast.unparse(ra["node"].value), a, None if ri["node"].value is None else ast.unparse(ri["node"].value)), **pc))
    return v


def _arg_default(r):
    """dump of the default of the argument a resolver result points at (None: it has none)"""
    fn, node = r["chain"][-1][0], r["node"]
    a = fn.args
    pos = list(getattr(a, "posonlyargs", [])) + list(a.args)
    if any(node is x for x in pos):
        i = [k for k, x in enumerate(pos) if x is node][0] - (len(pos) - len(a.defaults))
        return ast.dump(a.defaults[i]) if i >= 0 else None
    for x, d in zip(a.kwonlyargs, a.kw_defaults):
        if x is node:
            return None if d is None else ast.dump(d)
    return None


def _ws(s):
    return "".join(s.replace('"', "'").split())


def _annotation_of(node):
    if isinstance(node, ast.arg):
        return ast.unparse(node.annotation) if node.annotation is not None else None
    if isinstance(node, ast.AnnAssign):
        return ast.unparse(node.annotation)
    return None


def _eval_top(data, name):
    try:
        g = {}
        exec(compile(ast.parse(data.decode()), "<input>", "exec"), g)
        val = g[name]
        return list(val) if isinstance(val, (list, tuple)) else None
    except Exception:
        return None


# ---------------------------------------------------------------------- C20 under faults
def oracles_fault(op, S0, S1, SF, outF, sim, stats, versions=None):
    v = []
    fired = sim.fired
    if fired is None:
        stats["faults_not_fired"] = stats.get("faults_not_fired", 0) + 1
        return v
    fk = fired["kind"]
    seam = fired["event_kind"]
    key = "%s%s@%s" % (fk, "+persistent" if fired.get("repeats") else "", seam)
    stats.setdefault("faults_fired", {})
    stats["faults_fired"][key] = stats["faults_fired"].get(key, 0) + 1
    if fired.get("write_in_flight"):
        stats["faults_with_write_in_flight"] = stats.get("faults_with_write_in_flight", 0) + 1
    if fired.get("second"):
        stats["second_faults_fired"] = stats.get("second_faults_fired", 0) + 1
    if (sim.fault or {}).get("then") if hasattr(sim, "fault") else False:
        stats["fault_sequences_planned"] = stats.get("fault_sequences_planned", 0) + 1
    named = set(named_files(op))
    common = dict(fault=fk, seam=seam, in_flight=bool(fired.get("write_in_flight")), persistent=True if fired.get("repeats") else None)
    truth = _truth_info(op, S0) if op["op"] == "sync" else None
    for f in sorted(set(S0) | set(S1) | set(SF)):
        a, b, c = S0.get(f), S1.get(f), SF.get(f)
        tk, pre, kn = None, None, []
        if op["op"] == "sync":
            kn = [(k, n) for k, n, ff in iter_targets(op) if ff == f]
            if kn:
                tk = target_kind(*kn[0])
                pre = pre_state(kn[0][0], kn[0][1], a, truth)
        cellbase = "%s|%s|%s|%s|%s" % (op["op"], tk, write_path(pre) if pre else None, key, bool(fired.get("write_in_flight")))
        if f in named:
            stats.setdefault("c20_cells", {})
            stats["c20_cells"][cellbase] = stats["c20_cells"].get(cellbase, 0) + 1
        if c == a or c == b:
            continue
        if versions and len(kn) > 1 and c is not None and sha(c) in versions.get(f, ()):
            # the file is named under two kinds, so this operation rewrites it once per kind: a complete state the
            # fault-free run passes through between two of those rewrites is "completely rewritten", too.  (Only then:
            # a file named once that is written twice - say created empty, filled in later - has no such excuse.)
            stats["intermediate_complete_state_accepted"] = stats.get("intermediate_complete_state_accepted", 0) + 1
            continue
        if c is not None and b is None and f not in named:
            # a stray file the fault-free run does not leave behind: only tolerable after KILL, for files this very
            # process wrote that were not named on the command line (DESIGN §3.2 oracle 1); it may pre-exist as the
            # debris of an earlier killed run
            if fk == "KILL" and (f in sim.created or f in sim.touched):
                stats["stray_after_kill_tolerated"] = stats.get("stray_after_kill_tolerated", 0) + 1
                continue
            v.append(viol("C20", "O1-stray-file", op, "%s left behind after %s at %s" % (f, fk, seam), target_kind=tk, pre_state=pre, **common))
            continue
        state = "absent" if c is None else ("empty" if not c else ("prefix-of-new" if b is not None and b.startswith(c) else ("old+partial" if a is not None and c.startswith(a) else "other")))
        v.append(viol("C20", "O1-old-or-new", op,
                      "%s after %s at %s is neither its old bytes (%s) nor its fault-free new bytes (%s): %s, %d bytes" % (
                          f, fk, seam, "absent" if a is None else "%d B" % len(a), "absent" if b is None else "%d B" % len(b), state, len(c or b"")),
                      target_kind=tk, pre_state=pre, write=write_path(pre) if pre else None, left=state, **common))
        if c is not None and f.endswith(".py") and not resolver.parses(c):
            v.append(viol("C20", "O2-unparseable", op, "%s does not parse after %s at %s" % (f, fk, seam), target_kind=tk, pre_state=pre,
                          write=write_path(pre) if pre else None, **common))
    return v


def oracles_cli(op, S0, S1, out, stats):
    v = []
    exp = op.get("expect")
    stats.setdefault("cli_cells", {})
    cell = "%s|%s|%s" % (op["argv"][0] if op["argv"] else "", exp, op.get("why"))
    stats["cli_cells"][cell] = stats["cli_cells"].get(cell, 0) + 1
    common = dict(sub=op["argv"][0] if op["argv"] else "", why=op.get("why"))
    if exp == "reject":
        usage = out["status"] == "exit" and out.get("code") == 2
        gen_refusal = common["sub"] == "gen" and out["status"] == "exc" and out.get("exc") in ("OSError", "IOError", "FileExistsError")
        if not (usage or gen_refusal):
            v.append(viol("C20", "O3-not-rejected", op, "invalid invocation (%s) was not rejected with a usage error: %s %s" % (
                op.get("why"), out["status"], out.get("exc", out.get("code"))), exc=out.get("exc", out["status"]), site=out.get("site"), **common))
        if S0 != S1:
            ch = sorted(f for f in set(S0) | set(S1) if S0.get(f) != S1.get(f))
            v.append(viol("C20", "O3-rejected-but-touched", op, "rejected invocation (%s) changed the filesystem: %s" % (op.get("why"), ch), **common))
    elif exp == "untouched":
        # however the invocation ends, it must not alter anything that exists
        if S0 != S1:
            ch = sorted(f for f in set(S0) | set(S1) if S0.get(f) != S1.get(f))
            v.append(viol("C20", "O3-rejected-but-touched", op, "invocation (%s) that must not touch existing files changed: %s" % (op.get("why"), ch), **common))
    elif exp == "either":
        # the documented rules neither require nor forbid this combination: a usage error that leaves the
        # tree untouched is fine, carrying it out is fine, an internal error is not
        usage = out["status"] == "exit" and out.get("code") == 2
        if usage:
            if S0 != S1:
                v.append(viol("C20", "O3-rejected-but-touched", op, "rejected invocation (%s) changed the filesystem" % op.get("why"), **common))
        elif out["status"] != "ok":
            v.append(viol("C20", "O4-accepted-not-carried-out", op, "invocation the command line accepted (%s) ended with %s %s at %s: %s" % (
                op.get("why"), out["status"], out.get("exc", out.get("code")), out.get("site"), out.get("msg", out.get("stderr", ""))[:160]),
                exc=out.get("exc", "exit%s" % out.get("code")), site=out.get("site"), **common))
    elif exp == "accept":
        if out["status"] not in ("ok",) and not (out["status"] == "exit" and out.get("code") == 0):
            v.append(viol("C20", "O4-accepted-not-carried-out", op, "accepted invocation (%s) ended with %s %s at %s: %s" % (
                op.get("why"), out["status"], out.get("exc", out.get("code")), out.get("site"), out.get("msg", out.get("stderr", ""))[:160]),
                exc=out.get("exc", "exit%s" % out.get("code")), site=out.get("site"), **common))
    return v


def oracles_gen(op, S0, S1, out, stats):
    v = []
    stats["gen_ops"] = stats.get("gen_ops", 0) + 1
    if S0.get(op["output"]) is not None:
        # existing output: must be refused and untouched
        refused = (out["status"] == "exit" and out.get("code") == 2) or (out["status"] == "exc" and out.get("exc") in ("OSError", "IOError", "FileExistsError"))
        if not refused:
            v.append(viol("C20", "O3-not-rejected", op, "gen onto an existing output file was not refused", sub="gen", why="output-exists"))
        if S0 != S1:
            v.append(viol("C20", "O3-rejected-but-touched", op, "gen onto an existing output changed the filesystem", sub="gen", why="output-exists"))
        return v
    if out["status"] != "ok":
        v.append(viol("C20", "O4-accepted-not-carried-out", op, "accepted gen invocation ended with %s %s at %s: %s" % (
            out["status"], out.get("exc", out.get("code")), out.get("site"), out.get("msg", "")[:160]),
            exc=out.get("exc", "exit"), site=out.get("site"), gen_type=op["type"], imports=bool(op.get("imports_from_file")),
            emit_call=True if op.get("emit_call") else None, decorators=len(op["decorators"]) if op.get("decorators") else None))
    for f in S1:
        if f != op["output"] and S0.get(f) != S1.get(f):
            v.append(viol("C20", "O1-gen-touched-other-file", op, "gen modified %s" % f, gen_type=op["type"]))
    return v


def apply_env(world, op):
    """Environment actions of the simulated user: write/delete a file, or transform the file as it is now."""
    if op["op"] == "env":
        world.write(op["path"], op.get("text"))
        return True
    if op["op"] == "env_transform":
        cur = world.snapshot().get(op["path"])
        if cur is not None and op["how"] == "hardlink":
            world.hardlink(op["path"])
            return True
        if cur is not None:
            how = op["how"]
            if how == "crlf":
                cur = cur.replace(b"\r\n", b"\n").replace(b"\n", b"\r\n")
            elif how == "lf":
                cur = cur.replace(b"\r\n", b"\n")
            elif how == "strip_trailing_newline":
                cur = cur.rstrip(b"\r\n")
            elif how == "append_blank_lines":
                cur = cur + b"\n\n"
            world.write(op["path"], cur)
        return True
    return False


# ------------------------------------------------------------------------ executor
def resolve_fault(fault, sim1):
    """Turn a relative fault address (frac / pick) into a concrete event or step index of the
    fault-free twin trace of the same operation.  Pure function of (fault, trace)."""
    if fault is None or "index" in fault:
        return fault
    f = dict(fault)
    frac = float(fault.get("frac", 0.5))
    if fault["where"] == "event":
        evs = sim1.events
        cand = list(range(len(evs)))
        pick = fault.get("pick")
        if pick == "write_window":
            w = [i for i, e in enumerate(evs) if e["kind"] in fs.WRITE_EVENT_KINDS]
            if w:
                cand = list(range(w[0], w[-1] + 1))
        elif pick:
            w = [i for i, e in enumerate(evs) if e["kind"].startswith(pick)]
            if w:
                cand = w
        if not cand:
            return None
        f["index"] = cand[min(len(cand) - 1, int(frac * len(cand)))]
    else:
        n = sim1.steps
        if n <= 0:
            return None
        if fault.get("pick") == "near_io" and sim1.step_at_event:
            w = [i for i, e in enumerate(sim1.events) if e["kind"] in fs.WRITE_EVENT_KINDS] or list(range(len(sim1.events)))
            base = sim1.step_at_event[w[min(len(w) - 1, int(frac * len(w)))]]
            f["index"] = max(1, min(n, base + int(fault.get("delta", 1))))
        else:
            f["index"] = 1 + min(n - 1, int(frac * n))
    return f


def execute(scenario, want_trace=False):
    """Run a scenario. Returns dict(violations, digest, stats, trace)."""
    ns = setup()
    knobs = scenario.get("knobs", {})
    world = fs.World()
    stats = {}
    violations = []
    hist = {}
    trace = []
    ops_done = 0
    reach = stats.setdefault("reach", {})

    def hit(k):
        reach[k] = reach.get(k, 0) + 1

    hit("path_style=%s" % knobs.get("path_style", "abs"))
    hit("bufsize=%s" % knobs.get("bufsize", 8192))
    if sys.flags.optimize:
        hit("python -O")
    states = []
    try:
        for rel, text in sorted(scenario.get("files", {}).items()):
            world.write(rel, text)
            if "\r\n" in (text or ""):
                hit("file with CRLF line endings")
        for i, op in enumerate(scenario["ops"]):
            kind = op["op"]
            if kind == "env_transform":
                hit("env_transform:" + op["how"])
            elif kind == "env":
                hit("env:" + str(op.get("label")))
            elif kind == "sync":
                hit("sync via " + op.get("via", "cli"))
                if any(len(t["files"]) > 1 for t in op["targets"].values()):
                    hit("sync with two files of one kind")
                allf = [f for t in op["targets"].values() for f in t["files"]]
                if len(allf) != len(set(allf)):
                    hit("sync with one file named under two kinds")
                if op.get("hashseed") is not None and knobs.get("processes") == "spawn":
                    hit("sync in a freshly started interpreter with its own hash seed")
                if op.get("fault"):
                    hit("sync with fault")
                    if op["fault"].get("persist"):
                        hit("persistent fault planned")
            if kind == "env_transform":
                apply_env(world, op)
                hist["prev"] = None
                hist["quiet"] = {}
                trace.append({"i": i, "op": "env_transform", "path": op["path"], "how": op["how"]})
                continue
            if kind == "env":
                world.write(op["path"], op.get("text"))
                hist["prev"] = None
                hist["quiet"] = {}
                trace.append({"i": i, "op": "env", "path": op["path"], "label": op.get("label"), "sha": sha(op.get("text") or "")})
                continue
            S0 = world.snapshot()
            cli = is_cli_op(op)
            has_fault = bool(op.get("fault"))
            # The reference ("twin") execution always happens in a forked child, so that it leaves no trace in this
            # process.  A fault-free command-line invocation *is* such a child (a new process); a fault-free API call
            # runs here, in the long-lived process of the simulated user, and its module-level state carries over.
            if cli or has_fault:
                out1, sim1 = run_op(ns, world, knobs, op, where="fork", fresh=cli)
            else:
                out1, sim1 = run_op(ns, world, knobs, op)
            S1 = world.snapshot()
            ops_done += 1
            stats["ops"] = stats.get("ops", 0) + 1
            stats["events"] = stats.get("events", 0) + len(sim1.events)
            stats["steps"] = stats.get("steps", 0) + sim1.steps
            if scenario.get("twin_check") and i in scenario["twin_check"]:
                world.restore(S0)
                out1b, sim1b = run_op(ns, world, knobs, op, where="fork", fresh=cli)
                S1b = world.snapshot()
                if not (cli or has_fault):
                    pass  # (the in-process run above already happened; the probe runs in a child and leaves no trace)
                world.restore(S1)
                if S1b != S1 or sim1b.steps != sim1.steps or [e["kind"] for e in sim1b.events] != [e["kind"] for e in sim1.events]:
                    # The same operation on the same project gave a different run: something in the process outlived the
                    # first execution.  The twin is then no oracle for this op (its fault is not evaluated); the driver
                    # refuses to report a clean pass for a batch in which this happened.
                    stats["twin_nondeterministic"] = stats.get("twin_nondeterministic", 0) + 1
                    op = dict(op)
                    op.pop("fault", None)
                stats["twin_checks"] = stats.get("twin_checks", 0) + 1
            new = []
            if kind == "sync":
                new += oracles_sync(op, S0, S1, out1, hist, stats)
            elif kind == "sync_properties":
                new += oracles_sync_properties(op, S0, S1, out1, stats)
            elif kind == "gen":
                new += oracles_gen(op, S0, S1, out1, stats)
            elif kind == "cli":
                new += oracles_cli(op, S0, S1, out1, stats)
            states.append(digest({f: sha(d) for f, d in sorted(S1.items())})[:10])
            rec = {"i": i, "op": kind, "status": out1["status"], "exc": out1.get("exc"), "site": out1.get("site"), "steps": sim1.steps,
                   "events": [[e["kind"], e["path"]] for e in sim1.events], "report": out1.get("report"),
                   "post": {f: sha(d) for f, d in sorted(S1.items())}}
            fault = op.get("fault")
            if fault:
                fault = resolve_fault(fault, sim1)
            if fault:
                world.restore(S0)
                if cli:
                    outF, simF = run_op(ns, world, knobs, op, fault=fault, where="fork", fresh=True)
                else:
                    outF, simF = run_op(ns, world, knobs, op, fault=fault)
                    if outF["status"] == "killed" and _proc is not None:
                        _proc.restore_baseline()  # the user's process is dead; whatever comes next is a new one
                SF = world.snapshot()
                new += oracles_fault(op, S0, S1, SF, outF, simF, stats, versions=getattr(sim1, "versions", None))
                if kind == "sync" and simF.fired is not None:
                    new += c11_after_fault(op, S0, S1, SF, simF, stats)
                    if outF["status"] == "ok":
                        new += c09_after_swallowed_fault(op, S0, SF, simF, stats)
                rec["fault"] = {"plan": fault, "fired": simF.fired, "status": outF["status"], "exc": outF.get("exc"),
                                "post": {(f if f in S0 or f in S1 else "<stray>"): sha(d) for f, d in sorted(SF.items())}}
                hist["prev"] = None
                hist["quiet"] = {}
            else:
                hist["prev"] = {"spec": op_spec(op), "ok": out1["status"] == "ok"} if kind == "sync" else None
                if kind != "sync":
                    hist["quiet"] = {}
            for x in new:
                x["op_index"] = i
            rec["violations"] = [[x["property"], x["oracle"]] for x in new]
            trace.append(rec)
            violations += new
            # (violations of other properties than the one this history was generated for do not end it early)
            focus = scenario.get("focus")
            if len([x for x in violations if focus is None or x["property"] == focus]) >= scenario.get("max_violations", MAX_VIOLATIONS_PER_RUN) \
                    or len(violations) >= 10 * scenario.get("max_violations", MAX_VIOLATIONS_PER_RUN):
                break
    finally:
        world.close()
        if _proc is not None:
            _proc.restore_baseline()  # scenarios are independent of each other
    stats["state_digests"] = states[:16]
    return {"violations": violations, "digest": digest(trace), "stats": stats, "trace": trace if want_trace else None, "ops_done": ops_done}


def fault_free_trace(scenario, upto):
    """Execute ops [0..upto] fault-free (faults of earlier ops included as planned) and return the
    event list and step count of op `upto` - used by generators to address fault points."""
    ns = setup()
    knobs = scenario.get("knobs", {})
    world = fs.World()
    try:
        for rel, text in sorted(scenario.get("files", {}).items()):
            world.write(rel, text)
        for i, op in enumerate(scenario["ops"][: upto + 1]):
            if apply_env(world, op):
                continue
            if i == upto:
                out, sim = run_op(ns, world, knobs, op, record_steps=True)
                return {"events": sim.events, "steps": sim.steps, "status": out["status"], "step_at_event": sim.step_at_event}
            if op.get("fault"):
                S0 = world.snapshot()
                _o, s1 = run_op(ns, world, knobs, op)
                f = resolve_fault(op["fault"], s1)
                if f:
                    world.restore(S0)
                    run_op(ns, world, knobs, op, fault=f)
            else:
                run_op(ns, world, knobs, op)
    finally:
        world.close()
    return None


# ------------------------------------------------------------- fault enumeration (C20)
def enumerate_faults(sim1, seed, nsteps=24):
    """Every I/O and conversion event of the fault-free trace x every fault kind applicable to it,
    plus `nsteps` step indices x {INTERRUPT, ALLOC, KILL} (DESIGN §3.2)."""
    from dtsim.core import Chooser

    faults = []

    def ev(n, kind, **kw):
        f = {"where": "event", "index": n, "kind": kind}
        f.update(kw)
        faults.append(f)

    for e in sim1.events:
        k, n = e["kind"], e["n"]
        if k == "write":
            L = (e.get("detail") or {}).get("len", 0)
            for cut in sorted({0, 1, L // 2, max(0, L - 1)}):
                ev(n, "IOERR", cut=cut, errno="ENOSPC")
            ev(n, "IOERR", cut=L // 2, errno="ENOSPC", persist=True)
            for cut in sorted({0, L // 2, L}):
                ev(n, "KILL", cut=cut)
            ev(n, "INTERRUPT")
        elif k in ("open_w", "open_a", "os_open_w"):
            ev(n, "IOERR", errno="EACCES")
            ev(n, "IOERR", errno="ENOSPC")
            ev(n, "IOERR", errno="EROFS", persist=True)
            ev(n, "INTERRUPT")
            # fault sequences: an interrupt, then an I/O error / a second interrupt at whatever is written next
            ev(n, "INTERRUPT", then={"kind": "IOERR", "errno": "EIO", "cut": 0.5})
            ev(n, "INTERRUPT", then={"kind": "IOERR", "errno": "EACCES", "at": "open"})
            ev(n, "INTERRUPT", then={"kind": "INTERRUPT"})
            ev(n, "ALLOC")
            ev(n, "KILL")
        elif k in ("close_w", "flush"):
            ev(n, "IOERR", errno="ENOSPC")
            ev(n, "IOERR", errno="ENOSPC", persist=True)
            ev(n, "KILL")
            ev(n, "INTERRUPT")
        elif k.startswith("convert:"):
            ev(n, "CONVERT")
            ev(n, "INTERRUPT")
            ev(n, "ALLOC")
            ev(n, "KILL")
        elif k in ("open_r", "os_open_r"):
            ev(n, "IOERR", errno="EMFILE")
            ev(n, "INTERRUPT")
            ev(n, "KILL")
        elif k in ("read", "close_r"):
            ev(n, "IOERR", errno="EIO")
            ev(n, "KILL")
        else:  # replace, rename, remove, fsync, truncate, chmod, ...
            ev(n, "IOERR", errno="EIO")
            ev(n, "IOERR", errno="ENOSPC", persist=True)
            ev(n, "KILL")
            ev(n, "INTERRUPT")
    n = sim1.steps
    if n > 0:
        picks = {1, n}
        for i, e in enumerate(sim1.events):
            if e["kind"] in fs.WRITE_EVENT_KINDS or e["kind"].startswith("convert:"):
                s = sim1.step_at_event[i]
                picks.update(x for x in (s, s + 1) if 1 <= x <= n)
        ch = Chooser(seed).fork("enum-steps")
        picks = sorted(picks)
        if len(picks) > nsteps:
            picks = sorted(ch.sample("trim", picks, nsteps))
        while len(picks) < min(nsteps, n):
            x = ch.int("step", 1, n)
            if x not in picks:
                picks.append(x)
        for s in sorted(picks):
            for kind in ("INTERRUPT", "ALLOC", "KILL"):
                faults.append({"where": "step", "index": s, "kind": kind})
    return faults


def execute_enum(scenario, nsteps=24):
    """Fault enumeration over the *last* op of `scenario` (earlier ops are executed as given)."""
    ns = setup()
    knobs = scenario.get("knobs", {})
    world = fs.World()
    stats = {}
    violations = []
    try:
        for rel, text in sorted(scenario.get("files", {}).items()):
            world.write(rel, text)
        ops = scenario["ops"]
        for i, op in enumerate(ops[:-1]):
            if apply_env(world, op):
                pass
            elif is_cli_op(op):
                run_op(ns, world, knobs, op, where="fork", fresh=True)
            else:
                run_op(ns, world, knobs, op)
        op = ops[-1]
        S0 = world.snapshot()
        out1, sim1 = run_op(ns, world, knobs, op, where="fork", fresh=is_cli_op(op))
        S1 = world.snapshot()
        faults = enumerate_faults(sim1, scenario.get("seed", 0), nsteps)
        stats["enum_events"] = len(sim1.events)
        stats["enum_steps"] = sim1.steps
        stats["enum_faults"] = len(faults)
        digests = []
        cli = is_cli_op(op)
        for f in faults:
            world.restore(S0)
            outF, simF = run_op(ns, world, knobs, op, fault=f, where="fork", fresh=cli)
            SF = world.snapshot()
            new = oracles_fault(op, S0, S1, SF, outF, simF, stats, versions=getattr(sim1, "versions", None))
            if op["op"] == "sync" and simF.fired is not None:
                new += c11_after_fault(op, S0, S1, SF, simF, stats)
            digests.append([f, simF.fired is not None, outF["status"], {(p if p in S0 or p in S1 else "<stray>"): sha(d) for p, d in sorted(SF.items())}])
            for x in new:
                x["op_index"] = len(ops) - 1
                x["fault"] = f
            violations += new
        stats["ops"] = len(faults) + 1
        stats["events"] = len(sim1.events) * (len(faults) + 1)
        stats["steps"] = sim1.steps
    finally:
        world.close()
        if _proc is not None:
            _proc.restore_baseline()
    return {"violations": violations, "digest": digest(digests), "stats": stats, "status": out1["status"], "nfaults": len(faults)}


# -------------------------------------------------------------------- fidelity tier
def fidelity_child(task):
    """Child side: attach to the parent's world directory and run ONE operation with a KILL fault delivered as a
    real SIGKILL of this process."""
    ns = setup()
    world = fs.World(attach=task["root"])
    out, sim = run_op(ns, world, task["knobs"], task["op"], fault=task["fault"], real_kill=True)
    return {"status": out["status"], "fired": sim.fired}


def fidelity_case(scenario):
    """Parent side.  Execute all but the last op in-process; for the last op (which carries a KILL fault with a concrete
    index) produce the simulated post-state and the post-state after a real kill of a real child; return both."""
    import json
    import subprocess
    from dtsim import core

    ns = setup()
    knobs = dict(scenario.get("knobs", {}), bufsize=8192)
    world = fs.World()
    try:
        for rel, text in sorted(scenario.get("files", {}).items()):
            world.write(rel, text)
        for op in scenario["ops"][:-1]:
            if not apply_env(world, op):
                run_op(ns, world, knobs, op)
        op = scenario["ops"][-1]
        S0 = world.snapshot()
        out1, sim1 = run_op(ns, world, knobs, op)
        fault = resolve_fault(op["fault"], sim1)
        if fault is None:
            return None
        if fault.get("cut") not in (None, 0):
            fault = dict(fault, cut=0)
        world.restore(S0)
        outS, simS = run_op(ns, world, knobs, op, fault=fault)
        S_sim = world.snapshot()
        world.restore(S0)
        tf = world.root + ".task.json"
        with fs._orig_open(tf, "wt") as f:
            json.dump({"root": world.root, "knobs": knobs, "op": op, "fault": fault}, f)
        p = subprocess.run([core.PYTHON, "-W", "ignore", core.LAUNCHER, "worker", "fidelity", tf], env=core.worker_env(), cwd=core.VERIF,
                           stdout=subprocess.PIPE, stderr=subprocess.PIPE, timeout=120)
        os.remove(tf)
        S_real = world.snapshot()
        return {"fault": fault, "sim_fired": simS.fired is not None, "sim_status": outS["status"], "child_rc": p.returncode,
                "equal": S_sim == S_real, "sim": {k: sha(v) for k, v in S_sim.items()}, "real": {k: sha(v) for k, v in S_real.items()},
                "event_kind": simS.fired["event_kind"] if simS.fired else None, "in_flight": bool(simS.fired and simS.fired.get("write_in_flight")),
                "child_err": p.stderr.decode(errors="replace")[-300:] if p.returncode not in (-9, 0) else ""}
    finally:
        world.close()
