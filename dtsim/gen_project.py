"""Scenario generator for engine A.  Everything is drawn from one Chooser(seed);
the result is plain JSON and execution never looks at the generator again."""
import copy
import os
import random

from dtsim import render
from dtsim.core import Chooser

KINDS = ("argparse_function", "class", "function")
PRE_STATES = ("missing", "empty", "absent", "stale", "agree")
CLASS_NAMES = ["Config", "TrainConfig", "Settings"]
FUNC_NAMES = ["train", "run", "fit"]


class Layout(object):
    """How one project file is put together (so that the simulated user can edit it)."""

    def __init__(self, kind, name, before, after, trailing_newline, module_doc=None, siblings=(), header=None):
        self.kind, self.name = kind, name
        self.header = header
        self.before, self.after = before, after
        self.trailing_newline = trailing_newline
        self.module_doc = module_doc
        self.siblings = list(siblings)

    def _definition(self, desc, style):
        if desc is None:
            return None
        if self.kind == "class" and "." in self.name:
            # a class nested in another one (class Model: class Config): the target is Model.Config
            outer, inner = self.name.split(".")
            return ("class %s(object):\n    \"\"\" %s class \"\"\"\n\n    marker: int = 1\n\n" % (outer, outer)
                    + render.render_class(desc, inner, default_doc=style.get("default_doc", False), plain=style.get("plain_attrs", False), indent="    "))
        if self.kind == "class":
            return render.render_class(desc, self.name, default_doc=style.get("default_doc", False), plain=style.get("plain_attrs", False))
        if self.kind == "argparse_function":
            # a hand-written set_cli_args: sometimes without docstring, sometimes starting with its first add_argument
            bare = style.get("bare_argparse")
            return render.render_argparse(desc, self.name, docstring=not bare, description=bare != "no_description")
        if "." in self.name:
            cls, meth = self.name.split(".")
            return render.render_method(desc, cls=cls, name=meth, siblings=self.siblings,
                                        inline_types=style.get("inline_types", True), kwonly=style.get("kwonly", False),
                                        body=style.get("body"), extra_documented=style.get("stale", ()), style=style.get("docstyle", "rest"))
        return render.render_function(desc, self.name, inline_types=style.get("inline_types", True),
                                      kwonly=style.get("kwonly", False), body=style.get("body"), extra_documented=style.get("stale", ()), style=style.get("docstyle", "rest"))

    def definition(self, desc, style):
        d = self._definition(desc, style)
        deco = style.get("decorators")
        if d is None or not deco or self.kind == "class":
            return d
        # put the decorator lines in front of the `def` of the named function / method (at its indentation)
        out, done = [], False
        for ln in d.split("\n"):
            if not done and ln.lstrip().startswith("def %s(" % self.name.split(".")[-1]):
                ind = ln[: len(ln) - len(ln.lstrip())]
                out += [ind + x for x in deco]
                done = True
            out.append(ln)
        return "\n".join(out)

    def text(self, desc, style, state="present"):
        if state == "missing":
            return None
        if state == "empty":
            return ""
        if state == "absent":
            if "." in self.name and self.kind in ("function", "class") and style.get("absent_keeps_class", True):
                cls = self.name.split(".")[0]
                holder = "class %s(object):\n    \"\"\" %s class \"\"\"\n\n    marker: int = 1" % (cls, cls)
                return render.assemble(self.before, holder, [u for u in self.after if u["kind"] not in ("rebind_ann",)], self.trailing_newline, self.module_doc, self.header)
            # statements that use the definition's name make no sense in a file that does not define it
            after = [u for u in self.after if u["kind"] not in ("rebind", "rebind_ann", "use_after")]
            body = render.assemble(self.before, None, after, self.trailing_newline, self.module_doc, self.header)
            return body if body.strip() else "import os\n"
        return render.assemble(self.before, self.definition(desc, style), self.after, self.trailing_newline, self.module_doc, self.header)


def _colliding(desc, name):
    return [name.split(".")[-1]] + [p["name"] for p in desc["params"]]


def gen_layout(ch, label, kind, name, desc, rich):
    k_before = ch.int(label + ".nb", 0, 2 if rich else 1) if ch.chance(label + ".surround", 0.75 if rich else 0.4) else 0
    k_after = ch.int(label + ".na", 0, 2 if rich else 1) if ch.chance(label + ".surround2", 0.6 if rich else 0.3) else 0
    coll = _colliding(desc, name)
    bound0 = name.split(".")[0]
    before = render.unrelated_statements(ch, label + "b", coll, k_before, local_name=bound0)
    if "." in name and kind == "class" and ch.chance(label + ".simple", 0.4):
        # a module-level class that bears the *simple* name of the nested target (Config next to Model.Config)
        before = [{"kind": "same_simple_name_class", "src": "class %s(object):\n    legacy: int = 1\n\n    def load(self):\n        return self.legacy" % name.split(".")[-1]}] + before
    # statements after the definition may re-bind or use the name it binds (a decorator applied by hand, an alias)
    bound = name.split(".")[0]
    after = render.unrelated_statements(ch, label + "a", coll, k_after, after_def=bound if rich or ch.chance(label + ".rb", 0.5) else None, local_name=bound)
    siblings = []
    if "." in name:
        for i in range(ch.int(label + ".nsib", 0, 2)):
            where = ch.choice(label + ".sib%d" % i, ["before", "after"])
            pname = coll[ch.int(label + ".sibc%d" % i, 0, len(coll) - 1)]
            src = ch.choice(label + ".sibk%d" % i, [
                "limit_%d: int = %d" % (i, i + 3),
                "def other_%d(self, %s=None):\n    return %s" % (i, pname, pname),
                "def reset_%d(self):\n    \"\"\"reset\"\"\"\n    self.x = %d" % (i, i),
            ])
            siblings.append({"where": where, "src": src})
    return Layout(kind, name, before, after, trailing_newline=ch.chance(label + ".nl", 0.8),
                  module_doc=ch.choice(label + ".mdocv", [
                      "Module %s." % label.replace(".", " "),
                      "Settings of the %s module.\n\nname      meaning\nalpha     first  column\nbeta      second column\n" % label.replace(".", " "),
                      "Notes:\n    indented    text with    runs of blanks",
                  ]) if ch.chance(label + ".mdoc", 0.25) else None, siblings=siblings, header=ch.choice(label + ".header", render.HEADERS))


DOCSTYLE_P = float(os.environ.get("DTSIM_DOCSTYLE_P", "0.15"))


def gen_style(ch, label, body_p=0.3):
    body = None
    if ch.chance(label + ".body", body_p):
        # statements that are not part of the interface, annotated local assignments among them
        body = ch.choice(label + ".bodyv", [["total = 0", "print('working')"], ["loss: float = 0.0", "seen: list = []", "print(loss, seen)"],
                                            ["count: int", "count = 1", "print(count)"]])
    st = {"inline_types": ch.chance(label + ".inline", 0.7), "kwonly": ch.chance(label + ".kwonly", 0.2),
          "default_doc": ch.chance(label + ".ddoc", 0.3), "body": body, "plain_attrs": ch.chance(label + ".plain", 0.2),
          "absent_keeps_class": ch.chance(label + ".keepcls", 0.7),
          "bare_argparse": ch.weighted(label + ".bare", [(None, 8), ("no_docstring", 1), ("no_description", 1)]),
          # decorators on the synchronised definition itself (bare names, dotted names, calls)
          "decorators": ch.weighted(label + ".deco", [(None, 9), (["@functools.lru_cache(maxsize=None)"], 1), (["@abc.abstractmethod", "@log_calls"], 0.7)])}
    if ch.chance(label + ".docstyle", DOCSTYLE_P):
        # a function whose author writes google / numpydoc docstrings (sync itself always emits ReST)
        st["docstyle"] = ch.choice(label + ".docstylev", ["google", "numpydoc", "rest_compact"])
    return st


class Project(object):
    """Generator-side model of the simulated project (never used at execution time)."""

    def __init__(self, ch, focus):
        self.ch = ch
        rich = focus in ("C11", "C09")
        # (C11's last clause is about function bodies: more carried bodies, second function files and docstring-only return defaults)
        self.versions = [render.gen_desc(ch, "conservative" if ch.chance("profile", 0.8) else "wide", 1, 4, retdoc_p=0.25 if focus == "C11" else None)]
        self.cur = 0
        self.names = {"class": ch.choice("cname", CLASS_NAMES), "argparse_function": "set_cli_args"}
        if ch.chance("nested_class", 0.1):
            self.names["class"] = "Model." + self.names["class"]
        fname = ch.choice("fname", FUNC_NAMES)
        self.names["function"] = ("C." + fname) if ch.chance("method", 0.4) else fname
        self.files = {}  # rel -> dict(kind, layout, style)
        self.by_kind = {k: [] for k in KINDS}
        base = {"class": "cls.py", "function": "fn.py", "argparse_function": "ap.py"}
        for kind in KINDS:
            rels = [base[kind]]
            if ch.chance("second." + kind, 0.35 if focus == "C11" and kind == "function" else 0.4 if kind == "class" and "." in self.names["class"] else 0.12):
                rels.append(base[kind].replace(".py", "2.py"))
            for rel in rels:
                self.files[rel] = {"kind": kind, "layout": gen_layout(ch, rel, kind, self.names[kind], self.versions[0], rich),
                                   "style": gen_style(ch, rel + ".style", body_p=0.6 if focus == "C11" else 0.3)}
                self.by_kind[kind].append(rel)
        self.crlf = {rel for rel in sorted(self.files) if ch.chance("crlf." + rel, 0.06)}
        # two kinds may live in one file: the class file is then also named as a file of the function kind
        self.shared = ch.chance("shared", 0.1) and "." not in self.names["function"] and "." not in self.names["class"]
        self.shared_truth = focus == "C10" and ch.chance("shared_truth", 0.06)
        if focus == "C09":
            # the module of the truth function is also where the class is to live: that class is a target like any other (A1-A3).
            # Side stream of the same seed: every other decision of a C09 run stays what it was before this knob existed
            self.shared_truth = ch._rec("shared_truth", random.Random("%s|shared_truth" % ch.seed).random() < 0.08)

    def desc(self):
        return self.versions[self.cur]

    def text(self, rel, state="present", version=None):
        f = self.files[rel]
        d = self.versions[self.cur if version is None else version]
        t = f["layout"].text(d, f["style"], state)
        if t and rel in getattr(self, "crlf", ()):
            t = t.replace("\n", "\r\n")  # a file kept with Windows line endings
        return t

    def new_version(self, label):
        self.versions.append(render.edit_desc(self.ch, self.desc(), label))
        self.cur = len(self.versions) - 1
        return self.cur


def _truth_first(op):
    """Undo op["truth_pos"]: list the truth first again (what the command line requires)."""
    if op.pop("truth_pos", None):
        files = op["targets"][op["truth"]]["files"]
        op["targets"][op["truth"]]["files"] = files[1:2] + files[:1] + files[2:]
    return op


def sync_op(proj, ch, label, truth=None, kinds=None, via=None, avoid_known=True):
    truth = truth or ch.choice(label + ".truth", KINDS)
    if kinds is None:
        others = [k for k in KINDS if k != truth]
        kinds = [truth] + (others if ch.chance(label + ".three", 0.75) else [ch.choice(label + ".other", others)])
    targets = {}
    for k in KINDS:
        if k in kinds:
            targets[k] = {"files": list(proj.by_kind[k]), "name": proj.names[k]}
    # (only when neither of the two kinds is the truth: naming the truth file as a target of another kind is a request
    #  to modify it, which the property does not speak about)
    if getattr(proj, "shared", False) and "function" in targets and "class" in targets and truth == "argparse_function":
        targets["function"]["files"] = targets["function"]["files"] + [proj.by_kind["class"][0]]
    # one module holds the function that is the truth *and* is where the class is to live: the request does ask for that file
    # to change (R2 has no opinion then), but what sync reports about it must still be true (R1)
    if getattr(proj, "shared_truth", False) and truth == "function" and "class" in targets and "." not in proj.names["function"]:
        targets["class"]["files"] = targets["class"]["files"] + [proj.by_kind["function"][0]]
    op = {"op": "sync", "truth": truth, "via": via or ch.weighted(label + ".via", [("cli", 0.6), ("api", 0.4)]), "targets": targets}
    if op["via"] == "api" and len(targets[truth]["files"]) > 1 and ch.chance(label + ".truthpos", 0.4):
        # ground_truth(args, truth_file): the truth is identified by its path, wherever it stands in the list of its kind
        files = targets[truth]["files"]
        targets[truth]["files"] = files[1:2] + files[:1] + files[2:]
        op["truth_pos"] = 1
    return op


FAULT_KINDS = ("IOERR", "INTERRUPT", "ALLOC", "KILL", "CONVERT")


def gen_fault(ch, label, enabled=FAULT_KINDS):
    kind = ch.choice(label + ".kind", list(enabled))
    if kind in ("IOERR", "CONVERT") or ch.chance(label + ".atevent", 0.6):
        pick = ch.weighted(label + ".pick", [("write_window", 5), (None, 2), ("write", 2), ("convert", 1), ("close_w", 1)])
        if kind == "CONVERT":
            pick = "convert"
        f = {"where": "event", "kind": kind, "pick": pick, "frac": round(ch.rng.random(), 3)}
        ch._rec(label + ".frac", f["frac"])
        f["cut"] = ch.choice(label + ".cut", [0, 1, 0.5, -1, 512, 8192])
        f["errno"] = ch.choice(label + ".errno", ["ENOSPC", "EIO", "EACCES", "EDQUOT", "EROFS", "EMFILE"])
        if kind == "IOERR" and ch.chance(label + ".persist", 0.35):
            f["persist"] = True  # the condition stays (disk full / read-only): later writes of the same operation fail too
        elif kind in ("INTERRUPT", "ALLOC", "IOERR", "CONVERT") and ch.chance(label + ".then", 0.2):
            # a fault sequence: a second fault at whatever is written after the first one (by an error handler, a retry)
            f["then"] = ch.choice(label + ".thenv", [{"kind": "IOERR", "errno": "EIO", "cut": 0.5}, {"kind": "IOERR", "errno": "ENOSPC", "cut": 0}, {"kind": "INTERRUPT"}, {"kind": "IOERR", "errno": "EACCES", "at": "open"}])
    else:
        f = {"where": "step", "kind": kind if kind not in ("IOERR", "CONVERT") else "INTERRUPT",
             "pick": ch.choice(label + ".spick", ["near_io", None]), "frac": round(ch.rng.random(), 3),
             "delta": ch.choice(label + ".delta", [-2, -1, 1, 2, 5])}
        ch._rec(label + ".frac", f["frac"])
    return f


def initial_states(proj, ch, truth_kind, focus):
    """Pick a pre-state per target file and realise it as initial file text."""
    files = {}
    states = {}
    for rel, f in sorted(proj.files.items()):
        if f["kind"] == truth_kind and rel == proj.by_kind[truth_kind][0]:
            st = "agree"
        else:
            st = ch.weighted("pre." + rel, [("missing", 2), ("empty", 1), ("absent", 2), ("stale", 2), ("agree", 3)])
        states[rel] = st
    # a stale target is rendered from an *older* version: make one
    if any(s == "stale" for s in states.values()):
        old = 0
        proj.new_version("v1")
    for rel, st in states.items():
        if st == "stale":
            files[rel] = proj.text(rel, "present", version=0)
        elif st == "agree":
            files[rel] = proj.text(rel, "present")
        else:
            t = proj.text(rel, st)
            if t is not None:
                files[rel] = t
    return files, states


def gen_scenario(seed, focus="C20"):
    ch = Chooser(seed)
    proj = Project(ch, focus)
    knobs = {
        "bufsize": ch.weighted("bufsize", [(8192, 5), (0, 1), (512, 1), (10 ** 9, 1)]),
        "path_style": ch.weighted("path_style", [("abs", 6), ("tilde", 1), ("relative", 1), ("symlink_dir", 1), ("symlink_file", 1)]),
    }
    # "every command-line invocation is a new interpreter": in some C10 histories each sync runs in a freshly started
    # interpreter whose string-hash seed the scheduler picks (everything else forks from one interpreter, seed 0).
    # Those projects also carry docstrings that mention names the signature no longer has - the classic input on which
    # an order taken from a set shows.
    procs = ch.chance("processes", 0.05 if focus == "C10" else 0.02)
    if procs:
        knobs["processes"] = "spawn"
        for rel in proj.by_kind["function"]:
            # (stale names only where the oracles of the focus property have no opinion about them)
            if focus == "C10" and ch.chance("stale." + rel, 0.7):
                proj.files[rel]["style"]["stale"] = ch.sample("stalenames." + rel, ["legacy_mode", "verbose", "cache_dir", "retries", "timeout_s"], ch.int("nstale." + rel, 2, 4))
    truth0 = ch.choice("truth0", KINDS)
    files, states = initial_states(proj, ch, truth0, focus)
    ops = []
    if ch.chance("hardlink", 0.08):
        # one of the files has a second name (a hard link made by a backup or vendoring tool)
        have = sorted(r for r, t in files.items() if t is not None)
        if have:
            ops.append({"op": "env_transform", "path": ch.choice("hardlink.file", have), "how": "hardlink"})
    n_ops = ch.int("nops", 2, 7)
    enabled = ch.subset("faults.enabled", FAULT_KINDS, 0.6, at_least=1)
    fault_rate = {"C20": 0.55, "C09": 0.25, "C10": 0.05, "C11": 0.1, "C14": 0.2}.get(focus, 0.2)
    last_sync = None
    truth = truth0
    sp_ready = False
    i = 0
    while len(ops) < n_ops:
        i += 1
        lab = "op%d" % i
        choices = [("sync", 5), ("repeat", 3 if last_sync else 0), ("alternate", 2 if last_sync else 0),
                   ("edit_truth", 1.5 if last_sync else 0), ("perturb", 1.5), ("unrelated", 0.7 if focus == "C11" else 0.2),
                   ("sp", 4 if focus == "C14" else 0.6), ("gen", 0.5 if focus == "C20" else 0.1), ("cli", 1.2 if focus == "C20" else 0.15)]
        if focus == "C10":
            choices = [("sync", 3), ("repeat", 6 if last_sync else 0), ("alternate", 4 if last_sync else 0), ("edit_truth", 1.5 if last_sync else 0),
                       ("perturb", 1)]
        what = ch.weighted(lab, choices)
        if what == "sync":
            truth = ch.choice(lab + ".truth", KINDS) if ch.chance(lab + ".switch", 0.3) else truth
            op = sync_op(proj, ch, lab, truth=truth)
            # the truth must exist: if its file is not in a good state, the user fixes it first
            tf = proj.by_kind[truth][0]
            if states.get(tf) != "agree" and states.get(tf) != "synced":
                ops.append({"op": "env", "path": tf, "text": proj.text(tf), "label": "write_truth"})
                states[tf] = "agree"
            last_sync = op
        elif what == "repeat":
            op = copy.deepcopy(last_sync)
            if ch.chance(lab + ".flipvia", 0.3):
                # the same invocation through the other route: a command-line run is a new process, an API call is not
                _truth_first(op)
                op["via"] = "api" if op.get("via") == "cli" else "cli"
        elif what == "alternate":
            others = [k for k in last_sync["targets"] if k != last_sync["truth"]]
            op = _truth_first(copy.deepcopy(last_sync))
            op["truth"] = ch.choice(lab + ".alt", others)
            truth = op["truth"]
            if truth != "argparse_function" and "function" in op["targets"]:
                # the truth file is never also named as a target of another kind
                own = set(proj.by_kind["function"])
                op["targets"]["function"]["files"] = [f for f in op["targets"]["function"]["files"] if f in own]
            last_sync = op
        elif what == "edit_truth":
            proj.new_version(lab + ".edit")
            tf = proj.by_kind[last_sync["truth"]][0]
            ops.append({"op": "env", "path": tf, "text": proj.text(tf), "label": "edit_truth"})
            continue
        elif what == "perturb" and last_sync and ch.chance(lab + ".transform", 0.3):
            rel = ch.choice(lab + ".tfile", sorted(proj.files))
            ops.append({"op": "env_transform", "path": rel, "how": ch.choice(lab + ".how", ["crlf", "crlf", "strip_trailing_newline", "append_blank_lines"])})
            continue
        elif what == "perturb":
            rel = ch.choice(lab + ".file", sorted(proj.files))
            st = ch.choice(lab + ".to", PRE_STATES)
            if proj.files[rel]["kind"] == truth and rel == proj.by_kind[truth][0]:
                st = "agree"
            if st == "stale":
                ver = ch.int(lab + ".ver", 0, len(proj.versions) - 1)
                text = proj.text(rel, "present", version=ver)
            elif st == "agree":
                text = proj.text(rel)
            else:
                text = proj.text(rel, st)
            ops.append({"op": "env", "path": rel, "text": text, "label": "perturb:" + st})
            states[rel] = st
            continue
        elif what == "unrelated":
            rel = ch.choice(lab + ".file", sorted(proj.files))
            lay = proj.files[rel]["layout"]
            extra = render.unrelated_statements(ch, lab + "x", _colliding(proj.desc(), lay.name), 1)
            if ch.chance(lab + ".where", 0.5):
                lay.before = lay.before + extra
            else:
                lay.after = extra + lay.after
            lay.trailing_newline = ch.chance(lab + ".nl", 0.7)
            ops.append({"op": "env", "path": rel, "text": proj.text(rel), "label": "add_unrelated"})
            continue
        elif what == "sp":
            pre, op = sp_op(proj, ch, lab, files if not sp_ready else None)
            sp_ready = True
            ops += pre
        elif what == "gen":
            pre, op = gen_op(proj, ch, lab)
            ops += pre
        else:
            pre, op = cli_op(proj, ch, lab)
            ops += pre
        if op["op"] != "cli" and ch.chance(lab + ".fault", fault_rate):
            op["fault"] = gen_fault(ch, lab + ".f", enabled)
        if procs and op["op"] == "sync":
            op["via"] = "cli"
            op["hashseed"] = ch.int(lab + ".hashseed", 1, 2 ** 31 - 1)
        ops.append(op)
        if op["op"] == "sync":
            for k, t in op["targets"].items():
                for f in t["files"]:
                    states[f] = "synced"
    twin_check = [idx for idx, o in enumerate(ops) if o["op"] not in ("env", "env_transform")][:1] if ch.chance("twin", 0.1) else []
    return {"engine": "project", "seed": seed, "focus": focus, "knobs": knobs, "files": files, "ops": ops, "twin_check": twin_check}


# ------------------------------------------------------------------ sync_properties
SP_INPUT = '''from typing import Literal, Optional

{consts}


class Source(object):
    """ source class """

    base_{cattr} = 0
    {cattr}: {ctyp} = {cdef}
    unrelated_attr: int = 7

    def method(self, {marg}: {mtyp} = {mdef}, untouched: str = "u"):
        return {marg}


def source_fn({farg}: {ftyp}, other: int = 2, *, {kwarg}: {kwtyp} = {kwdef}):
    return {farg}
'''

SP_OUTPUT = '''from typing import Literal, Optional

async def fetch_remote(session):
    {oconst}: int = 0
    {oarg} = await session.get({oconst})
    return {oarg}


{oconst}: int = 1
keep_me = 42


def helper({oarg}{hargdef}, unrelated=3):
    return {oarg}


class Target(object):
    """ target class """

    {oattr}: str = "x"
    other_attr: float = 0.5

    def method(self, {omarg}: str = "m", keep: int = 1, *, {okw}: bool = False):
        return keep


def target_fn({oarg}: str{oargdef}, keep: int = 1, *, {okw2}: float = 0.5):
    """ doc """
    return keep


class Later(object):
    def method(self, {omarg}: int = 3):
        return {omarg}


def pos_fn(first: int = 1, /, {oarg}: str = "p", last: int = 3):
    return first
'''


def sp_op(proj, ch, lab, _files):
    # one input/output module pair per scenario: later sync_properties calls start from the same bytes (restored by the
    # simulated user), with different pairs
    if proj is not None and getattr(proj, "sp_names", None) is None:
        proj.sp_names = ch.sample("sp.names", render.WORDS, 9)
        proj.sp_types = lab
    names = proj.sp_names if proj is not None else ch.sample(lab + ".names", render.WORDS, 9)
    tlab = proj.sp_types if proj is not None else lab
    cattr, marg, farg, kwarg, oconst, oarg, oattr, omarg, okw = names
    if Chooser(ch.seed).fork("sp-shadow-" + tlab).chance("shadow", 0.3):
        # a module-level name equal to the name of a parameter further down (a constant the function takes as default, say)
        oconst = oarg
    okw2 = okw if Chooser(ch.seed).fork("sp-kw-" + tlab).chance("samekw", 0.5) else okw + "2"
    # "copy the setting of that name": the class attribute of the input module bears the name of a property of the
    # output module (the commonest real use); such a pair then addresses exactly the property of that name
    same = Chooser(ch.seed).fork("sp-same-" + tlab)
    samename = same.chance("samename", 0.3)
    if samename:
        cattr = same.choice("which", [okw, okw2, oarg, omarg, oattr])
    # the same for parameters: a parameter of an input function / method bears the name of the output parameter it is copied to
    samearg = None if samename else same.weighted("samearg", [(None, 5), ("fn", 1), ("method", 1)])
    if samearg == "fn":
        farg = oarg
    elif samearg == "method":
        marg = omarg
    typs = ["Literal['a', 'b']", "Optional[int]", "int", "Literal['x']", "Optional[str]", "float"]

    def td(l):
        t = ch.choice(l, typs)
        d = {"Literal['a', 'b']": "'a'", "Optional[int]": "None", "int": "5", "Literal['x']": "'x'", "Optional[str]": "'s'", "float": "1.5"}[t]
        return t, d

    tch = Chooser(ch.seed).fork("sp-types-" + tlab)  # the same module text for every sync_properties op of the scenario
    typs_pick = lambda l: tch.choice(l, typs)

    def td(l):  # noqa: F811
        t = typs_pick(l)
        d = {"Literal['a', 'b']": "'a'", "Optional[int]": "None", "int": "5", "Literal['x']": "'x'", "Optional[str]": "'s'", "float": "1.5"}[t]
        return t, d

    ctyp, cdef = td("ct")
    mtyp, mdef = td("mt")
    ftyp, _ = td("ft")
    kwtyp, kwdef = td("kt")
    evalname = "CHOICES"
    # a second evaluable name that only some versions of the input module define
    with_extra = ch.chance(lab + ".extra", 0.5)
    choices_val = tch.choice("choicesval", ["('p', 'q', 'r')", "('p', 'q', 'r')", "(0, 1, False, True)", "[1, 1.0, 2]", "('a', 'a', 'b')", "(2, 3, 5)"])
    # (plain assignments whose names contain the names of addressable properties come first: max_module_attr, base_<attr>)
    consts = "%s = %s\n%smax_module_attr = 3\nmodule_attr: %s = %s" % (evalname, choices_val, "EXTRA = ('u', 'v')\n" if with_extra else "", ctyp, cdef)
    inp = SP_INPUT.format(consts=consts, cattr=cattr, ctyp=ctyp, cdef=cdef, marg=marg, mtyp=mtyp, mdef=mdef, farg=farg, ftyp=ftyp,
                          kwarg=kwarg, kwtyp=kwtyp, kwdef=kwdef)
    # whether the leading positional parameters have defaults decides how the defaults list lines up with the arguments
    outp = SP_OUTPUT.format(oconst=oconst, oarg=oarg, oattr=oattr, omarg=omarg, okw=okw, okw2=okw2,
                            oargdef=' = "o"' if tch.chance("oargdef", 0.5) else "", hargdef="=None" if tch.chance("hargdef", 0.3) else "")
    if not tch.chance("nl", 0.8):
        outp = outp.rstrip("\n")
    outp = (tch.choice("outheader", render.HEADERS) or "") + outp
    inp = (tch.choice("inheader", render.HEADERS) or "") + inp
    in_addrs = ["Source." + cattr, "Source.method." + marg, "source_fn." + farg, "source_fn." + kwarg, "module_attr"]
    out_addrs = [oconst, "Target." + oattr, "Target.method." + omarg, "Target.method." + okw, "target_fn." + oarg, "target_fn." + okw2,
                 "Later.method." + omarg, "helper." + oarg, "pos_fn." + oarg]
    ev = ch.chance(lab + ".eval", 0.3)
    npairs = ch.weighted(lab + ".npairs", [(1, 5), (2, 3), (3, 2)])
    pairs = []
    outs = ch.sample(lab + ".outs", out_addrs, npairs)
    if ev and ch.chance(lab + ".useextra", 0.5):
        evalname = "EXTRA"  # resolves only if this version of the input module defines it
    landed = set()
    steer = ch.chance(lab + ".steer", 0.9)  # keep away from the triggers of the open findings F11-F13 (DESIGN §7.2)
    stmt_outs = {oconst, "Target." + oattr}
    for j in range(npairs):
        pool = list(in_addrs)
        if steer:
            pool = [x for x in pool if x != "source_fn." + kwarg]
            if outs[j] in stmt_outs:
                pool = ["Source." + cattr, "module_attr"]
        a = evalname if ev else ch.choice(lab + ".in%d" % j, pool)
        if ev and steer and outs[j] in ("Target.method." + omarg, "target_fn." + oarg, "Later.method." + omarg, "helper." + oarg, "pos_fn." + oarg):
            free = [x for x in (oconst, "Target." + oattr, "Target.method." + okw, "target_fn." + okw2) if x not in outs]
            outs[j] = ch.choice(lab + ".evout%d" % j, free)
        scope = outs[j].rpartition(".")[0]
        if not ev:
            # two pairs must not put the same name into the same scope (that request is ill-formed)
            for alt in [a] + in_addrs:
                if (scope, alt.rpartition(".")[2]) not in landed:
                    a = alt
                    break
            landed.add((scope, a.rpartition(".")[2]))
        pairs.append([a, outs[j]])
    if samename and not ev:
        scope_names = {"": [oconst, "keep_me"], "Target": [oattr, "other_attr"], "Target.method": [omarg, "keep", okw],
                       "target_fn": [oarg, "keep", okw2], "Later.method": [omarg], "helper": [oarg, "unrelated"], "pos_fn": ["first", oarg, "last"]}
        homes = [x for x in out_addrs if x.rpartition(".")[2] == cattr]
        if ch.chance(lab + ".samefirst", 0.6):
            pairs[0] = ["Source." + cattr, ch.choice(lab + ".samehome", homes)]
        taken = set()
        for j, (a, o) in enumerate(pairs):
            scope = o.rpartition(".")[0]
            if a == "Source." + cattr and cattr in scope_names[scope] and o.rpartition(".")[2] != cattr:
                o = (scope + "." if scope else "") + cattr  # the property of that name, not its neighbour
            if o in taken or (a != "Source." + cattr and j and a.rpartition(".")[2] in [x[0].rpartition(".")[2] for x in pairs[:j] if x and x[1].rpartition(".")[0] == scope]):
                pairs[j] = None
                continue
            taken.add(o)
            pairs[j] = [a, o]
        pairs = [x for x in pairs if x]
        npairs = len(pairs)
    if samearg and not ev:
        mine = ["source_fn." + farg, "target_fn." + oarg] if samearg == "fn" else ["Source.method." + marg, "Target.method." + omarg]
        scope = mine[1].rpartition(".")[0]
        pairs = [mine] + [x for x in pairs if x[1].rpartition(".")[0] != scope and x[0].rpartition(".")[2] != mine[0].rpartition(".")[2]][:1]
        npairs = len(pairs)
    clash = False
    if not ev and not samename and not samearg and ch.chance(lab + ".clash", 0.18):
        # an earlier pair writes a name into a definition in which a later pair addresses a property of that very name
        # (the classic "swap two parameters"): each pair must still hit the property it addresses in the file as given
        clash = True
        which = ch.choice(lab + ".clashwhich", ["fn", "method", "class"])
        if which == "fn":
            inp = inp.replace("def source_fn(%s:" % farg, "def source_fn(%s:" % okw2).replace("return %s\n" % farg, "return %s\n" % okw2)
            pairs = [["source_fn." + okw2, "target_fn." + oarg], ["Source." + cattr, "target_fn." + okw2]]
        elif which == "method":
            inp = inp.replace("def method(self, %s:" % marg, "def method(self, %s:" % okw).replace("        return %s\n" % marg, "        return %s\n" % okw)
            pairs = [["Source.method." + okw, "Target.method." + omarg], ["module_attr", "Target.method." + okw]]
        else:
            inp = inp.replace("    %s: %s = %s\n    unrelated_attr" % (cattr, ctyp, cdef), "    other_attr: %s = %s\n    unrelated_attr" % (ctyp, cdef))
            pairs = [["Source.other_attr", "Target." + oattr], ["module_attr", "Target.other_attr"]]
    bad = ch.chance(lab + ".bad", 0.15) and not clash
    if bad:
        j = ch.int(lab + ".badj", 0, npairs - 1)
        which = ch.choice(lab + ".badwhich", ["in", "out", "out-prefix", "out-trailing-dot", "out-leading-dot"])
        if which == "in" and not ev:
            pairs[j][0] = pairs[j][0] + "_nope"
        elif which == "out-prefix":
            pairs[j][1] = "Missing." + pairs[j][1]
        elif which in ("out-trailing-dot", "out-leading-dot"):
            # a stray separator: "Target." / ".Target" names nothing (its components are 'Target' and the empty name)
            holder = pairs[j][1].rpartition(".")[0] or "Target"
            pairs[j][1] = (holder + ".") if which == "out-trailing-dot" else ("." + holder)
        else:
            pairs[j][1] = pairs[j][1] + "_nope"
    wrap = ch.choice(lab + ".wrap", [None, None, "Optional[{output_param}]", "Optional[Union[{output_param}, str]]"])
    # a module is often named after the main definition it holds (train.py: def train)
    in_name = tch.choice("inname", ["sp_in.py", "sp_in.py", "source_fn.py", "Source.py"])
    out_name = tch.choice("outname", ["sp_out.py", "sp_out.py", "target_fn.py", "Target.py", "helper.py"])
    pre = [{"op": "env", "path": in_name, "text": inp, "label": "sp_input"}, {"op": "env", "path": out_name, "text": outp, "label": "sp_output"}]
    op = {"op": "sync_properties", "input": in_name, "output": out_name, "pairs": pairs, "wrap": wrap, "eval": ev,
          "via": ch.choice(lab + ".via", ["cli", "api"])}
    return pre, op


# ------------------------------------------------------------------------------ gen
GEN_INPUT = '''{imports}

class Alpha(object):
    """
    Alpha thing.

    :cvar size: the size
    """

    size = 3

    def __init__(self, rate=0.5, name="a"):
        """
        Construct.

        :param rate: the rate
        :param name: the name
        """
        self.rate = rate


class Beta(object):
    """
    Beta thing.
    """

    def __init__(self, depth=2):
        """
        Construct.

        :param depth: the depth
        """
        self.depth = depth


def gamma(width=4, label="g"):
    """
    Gamma function.

    :param width: the width
    :param label: the label
    """
    return width


MAPPING = {mapping}
'''


def gen_op(proj, ch, lab):
    n = ch.int(lab + ".n", 1, 3)
    entries = ch.sample(lab + ".entries", ["Alpha", "Beta", "gamma"], n)
    if ch.chance(lab + ".classes_only", 0.6):
        entries = [e for e in entries if e != "gamma"] or ["Alpha"]
    mapping = "{%s}" % ", ".join("%r: %s" % (e, e) for e in entries)
    # "dictionary/mapping/2-tuple collection" (gen's own help text): the table need not be a dict
    # drawn from a side stream of the same seed, so that every other decision of the run stays what it was before this knob existed
    kinds = ["dict", "dict", "dict", "ordered", "proxy", "userdict", "chainmap", "pairs_tuple", "pairs_list"]
    container = kinds[ch._rec(lab + ".container", random.Random("%s|%s|container" % (ch.seed, lab)).randrange(len(kinds)))]
    pairs = ", ".join("(%r, %s)" % (e, e) for e in entries)
    mapping = {"dict": mapping, "ordered": "__import__('collections').OrderedDict([%s])" % pairs,
               "proxy": "__import__('types').MappingProxyType(%s)" % mapping, "userdict": "__import__('collections').UserDict(%s)" % mapping,
               "chainmap": "__import__('collections').ChainMap(%s)" % mapping,
               "pairs_tuple": "(%s,)" % pairs, "pairs_list": "[%s]" % pairs}[container]
    nimp = ch.int(lab + ".nimp", 0, 2)
    imports = "\n".join(["import os", "from collections import OrderedDict"][:nimp])
    mod = "genmod_%s" % lab
    text = GEN_INPUT.format(imports=imports, mapping=mapping)
    exists = ch.chance(lab + ".exists", 0.2)
    pre = [{"op": "env", "path": mod + ".py", "text": text, "label": "gen_input"}]
    out = "gen_out_%s.py" % lab
    if exists:
        pre.append({"op": "env", "path": out, "text": "KEEP = 1\n", "label": "gen_existing_output"})
    op = {"op": "gen", "mapping": mod + ".MAPPING", "type": ch.choice(lab + ".type", ["class", "function", "argparse"]),
          "name_tpl": ch.choice(lab + ".tpl", ["{name}Config", "{name}_gen"]), "output": out,
          "prepend": ch.choice(lab + ".prepend", [None, None, "PREPENDED = 1\\n"]),
          "imports_from_file": (mod + ".py") if ch.chance(lab + ".iff", 0.4) else None,
          "emit_call": ch.chance(lab + ".emit_call", 0.25),
          "decorators": ch.choice(lab + ".deco", [None, None, ["dataclass"], ["dataclass", "final"]])}
    return pre, op


# ------------------------------------------------------------------------------ cli
def cli_op(proj, ch, lab):
    """One row of the invocation table (DESIGN §3.2): expected class derived from the documented CLI rules."""
    table = ["no_truth_file_opt", "one_file", "truth_missing", "sp_input_missing", "sp_output_missing", "gen_output_exists",
             "files_without_names", "names_without_files", "two_files_one_kind", "sp_unequal_params", "name_twice", "version", "no_command"]
    row = ch.choice(lab + ".row", table)
    return cli_row(proj, ch, lab, row)


def cli_row(proj, ch, lab, row):
    W = "<W>/"
    pre = []
    cls, fn, ap = proj.by_kind["class"][0], proj.by_kind["function"][0], proj.by_kind["argparse_function"][0]
    for rel in (cls, fn, ap):
        pre.append({"op": "env", "path": rel, "text": proj.text(rel), "label": "cli_setup"})
    cn, fnn, apn = proj.names["class"], proj.names["function"], proj.names["argparse_function"]
    files = [cls, fn, ap]
    exp = "reject"
    if row == "no_truth_file_opt":
        argv = ["sync", "--truth", "class", "--function", W + fn, "--function-name", fnn, "--argparse-function", W + ap, "--argparse-function-name", apn]
    elif row == "one_file":
        argv = ["sync", "--truth", "class", "--class", W + cls, "--class-name", cn]
    elif row == "truth_missing":
        argv = ["sync", "--truth", "class", "--class", W + "nope.py", "--class-name", cn, "--function", W + fn, "--function-name", fnn]
    elif row == "sp_input_missing":
        argv = ["sync_properties", "--input-filename", W + "nope_in.py", "--input-param", "a", "--output-filename", W + fn, "--output-param", "b"]
    elif row == "sp_output_missing":
        argv = ["sync_properties", "--input-filename", W + cls, "--input-param", "a", "--output-filename", W + "nope_out.py", "--output-param", "b"]
    elif row == "gen_output_exists":
        argv = ["gen", "--name-tpl", "{name}Config", "--input-mapping", "os.environ", "--type", "class", "--output-filename", W + cls]
    elif row == "files_without_names":
        argv = ["sync", "--truth", "class", "--class", W + cls, "--function", W + fn]
        exp = "either"
    elif row == "names_without_files":
        argv = ["sync", "--truth", "class", "--class", W + cls, "--class-name", cn, "--function", W + fn, "--function-name", fnn, "--argparse-function-name", apn]
        exp = "accept"
    elif row == "two_files_one_kind":
        pre.append({"op": "env", "path": "cls_b.py", "text": proj.text(cls), "label": "cli_setup"})
        files.append("cls_b.py")
        argv = ["sync", "--truth", "class", "--class", W + cls, "--class", W + "cls_b.py", "--class-name", cn]
        exp = "accept"
    elif row == "sp_unequal_params":
        argv = ["sync_properties", "--input-filename", W + cls, "--input-param", cn, "--input-param", cn, "--output-filename", W + fn, "--output-param", "b"]
        exp = "either"
    elif row == "name_twice":
        argv = ["sync", "--truth", "class", "--class", W + cls, "--class-name", cn, "--class-name", "Other", "--function", W + fn, "--function-name", fnn]
        exp = "accept"
    elif row == "version":
        argv = ["--version"]
        exp = "accept"
    else:
        argv = []
    return pre, {"op": "cli", "argv": argv, "expect": exp, "why": row, "files": files}


PATTERN_LEVELS = 4  # an option is absent, or given once, twice or three times
N_PATTERNS = PATTERN_LEVELS ** 6 * 3


def sync_pattern_rows(proj, patterns):
    """Rows of the full `sync` invocation table (DESIGN §3.2): every presence pattern (absent / once / twice / three times) of
    the three file options and the three name options x the three --truth values.  `patterns`: indices in [0, N_PATTERNS).
    The expected class of a row is derived from the documented command-line rules only:
      reject  - no file option for the truth kind, or fewer than two files in total;
      either  - a file option without its name option (a usage error or a successful run are both fine, an internal error is not);
      accept  - everything else (a name option without files is simply unused)."""
    W = "<W>/"
    kinds = ["argparse_function", "class", "function"]
    flag = {"argparse_function": "--argparse-function", "class": "--class", "function": "--function"}
    base = {k: proj.by_kind[k][0] for k in kinds}
    second = {k: base[k].replace(".py", "_b.py") for k in kinds}
    third = {k: base[k].replace(".py", "_c.py") for k in kinds}
    pre = []
    for k in kinds:
        pre.append({"op": "env", "path": base[k], "text": proj.text(base[k]), "label": "table_setup"})
        pre.append({"op": "env", "path": second[k], "text": proj.text(base[k]), "label": "table_setup"})
        pre.append({"op": "env", "path": third[k], "text": proj.text(base[k]), "label": "table_setup"})
    ops = list(pre)
    for idx in patterns:
        t = kinds[idx % 3]
        rest = idx // 3
        counts = []
        for _ in range(6):
            counts.append(rest % PATTERN_LEVELS)
            rest //= PATTERN_LEVELS
        fcount = dict(zip(kinds, counts[:3]))
        ncount = dict(zip(kinds, counts[3:]))
        argv = ["sync", "--truth", t]
        files = []
        for k in kinds:
            for j in range(fcount[k]):
                rel = (base[k], second[k], third[k])[j]
                argv += [flag[k], W + rel]
                files.append(rel)
            for j in range(ncount[k]):
                argv += [flag[k] + "-name", proj.names[k] if j != 1 else proj.names[k] + "Other"]
        total = sum(fcount.values())
        if fcount[t] == 0 or total < 2:
            exp = "reject"
        elif any(fcount[k] and not ncount[k] for k in kinds):
            exp = "either"
        else:
            exp = "accept"
        ops.append({"op": "cli", "argv": argv, "expect": exp, "why": "pattern f=%s n=%s truth=%s" % ("".join(str(fcount[k]) for k in kinds), "".join(str(ncount[k]) for k in kinds), t[0]),
                    "files": sorted(set(files)), "pattern": idx})
        # the simulated user restores the project between rows, so that every row starts from the same files
        if exp != "reject":
            ops += pre
        if fcount[t] >= 2 and idx % 3 == 0:
            # the same row with a typo in the truth path: the first file of the truth kind (the truth file) does not exist
            # although later files of that kind do - "--truth must be an existent file", and nothing may be touched
            first = argv.index(flag[t]) + 1
            argv2 = list(argv)
            argv2[first] = W + "no_such_truth.py"
            ops.append({"op": "cli", "argv": argv2, "expect": "reject", "why": "pattern f=%s n=%s truth=%s, truth file missing" % (
                "".join(str(fcount[k]) for k in kinds), "".join(str(ncount[k]) for k in kinds), t[0]), "files": sorted(set(files)), "pattern": idx})
    return ops


def other_table_rows(proj):
    """sync_properties and gen rows: file present/missing x equal/unequal parameter counts; output absent/present x type."""
    W = "<W>/"
    ops = []
    cls, fn = proj.by_kind["class"][0], proj.by_kind["function"][0]
    for rel in (cls, fn):
        ops.append({"op": "env", "path": rel, "text": proj.text(rel), "label": "table_setup"})
    ops.append({"op": "env", "path": "tablemod.py", "text": GEN_INPUT.format(imports="import os", mapping="{'Alpha': Alpha}"), "label": "table_setup"})
    for inp_ok in (True, False):
        for out_ok in (True, False):
            for equal in (True, False):
                argv = ["sync_properties", "--input-filename", W + (cls if inp_ok else "nope_in.py"), "--output-filename", W + (fn if out_ok else "nope_out.py"),
                        "--input-param", "x", "--output-param", "y"] + ([] if equal else ["--input-param", "z"])
                if not inp_ok or not out_ok:
                    exp = "reject"
                elif not equal:
                    exp = "either"
                else:
                    continue  # resolvability of x / y is C14's subject
                ops.append({"op": "cli", "argv": argv, "expect": exp, "why": "sp in=%s out=%s equal=%s" % (inp_ok, out_ok, equal), "files": [cls, fn]})
    for typ in ("class", "function", "argparse"):
        ops.append({"op": "cli", "argv": ["gen", "--name-tpl", "{name}Config", "--input-mapping", "os.environ", "--type", typ, "--output-filename", W + cls],
                    "expect": "reject", "why": "gen onto existing output type=%s" % typ, "files": [cls]})
        # the same existing file spelled with an unexpanded ~ (quoted on the shell, or --output-filename=~/x.py) and relative to
        # the working directory: whatever gen makes of the spelling, the existing file must not be altered
        for spelling in ("~/" + cls, cls, "./" + cls):
            ops.append({"op": "cli", "argv": ["gen", "--name-tpl", "{name}Config", "--input-mapping", "tablemod.MAPPING", "--type", typ, "--output-filename", spelling],
                        "expect": "untouched", "why": "gen onto existing output spelled %r type=%s" % (spelling.replace(cls, "<f>"), typ), "files": [cls],
                        "home_world": True, "cwd_world": True, "path_world": True})
    return ops
