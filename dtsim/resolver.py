"""Independent resolver and extractors written directly over the `ast` module.
Nothing here uses doctrans: it is an oracle component (DESIGN §3.4, §3.5, §3.6)."""
import ast
import copy
import inspect

DEF_TYPES = (ast.ClassDef, ast.FunctionDef, ast.AsyncFunctionDef)


def parse(text):
    if isinstance(text, bytes):
        text = text.decode("utf-8")
    return ast.parse(text)


def parses(data):
    try:
        parse(data)
        return True
    except (SyntaxError, ValueError, UnicodeDecodeError):
        return False


def _targets(stmt):
    if isinstance(stmt, ast.AnnAssign) and isinstance(stmt.target, ast.Name):
        return [stmt.target.id]
    if isinstance(stmt, ast.Assign):
        return [t.id for t in stmt.targets if isinstance(t, ast.Name)]
    return []


def _child(body, name):
    """All statements in `body` that bind `name` (definitions or assignments)."""
    out = []
    for idx, stmt in enumerate(body):
        if isinstance(stmt, DEF_TYPES) and stmt.name == name:
            out.append((idx, stmt))
        elif name in _targets(stmt):
            out.append((idx, stmt))
    return out


def all_args(fn):
    a = fn.args
    out = list(getattr(a, "posonlyargs", [])) + list(a.args)
    if a.vararg:
        out.append(a.vararg)
    out += list(a.kwonlyargs)
    if a.kwarg:
        out.append(a.kwarg)
    return out


def resolve(tree, path):
    """-> dict(node, parents=[(container node, index)], ambiguous=bool) or None.
    The node whose qualified path is exactly `path`."""
    path = [p for p in path if p]
    if not path:
        return None
    container = tree
    chain = []
    node = None
    ambiguous = False
    for depth, seg in enumerate(path):
        if isinstance(container, (ast.Module, ast.ClassDef)):
            found = _child(container.body, seg)
            if not found:
                return None
            if len(found) > 1:
                ambiguous = True
            idx, node = found[0]
            chain.append((container, idx))
        elif isinstance(container, (ast.FunctionDef, ast.AsyncFunctionDef)):
            args = [a for a in all_args(container) if a.arg == seg]
            if args:
                node = args[0]
                chain.append((container, "arg"))
            else:
                found = _child(container.body, seg)
                if not found:
                    return None
                idx, node = found[0]
                chain.append((container, idx))
        else:
            return None
        container = node
    return {"node": node, "chain": chain, "ambiguous": ambiguous}


def _norm_docstrings(tree):
    tree = copy.deepcopy(tree)
    for n in ast.walk(tree):
        if isinstance(n, (ast.Module,) + DEF_TYPES) and n.body:
            first = n.body[0]
            if isinstance(first, ast.Expr) and isinstance(first.value, ast.Constant) and isinstance(first.value.value, str):
                first.value.value = "\n".join(ln.rstrip() for ln in inspect.cleandoc(first.value.value).split("\n")).strip()
    return tree


def norm_dump(node):
    """ast.dump with docstring constants compared modulo the whitespace normalisation
    black itself treats as AST-equivalent (DESIGN §3.5); every other node exactly."""
    return ast.dump(_norm_docstrings(node))


def surroundings(tree, path):
    """Fingerprint of everything but the named definition:
    {"top": [dump of every other top-level stmt in order], "siblings": [...], "index": i, "found": bool}.
    For a method `C.m`: top = other top-level statements, with class C represented by its
    header + siblings; siblings = dumps of C's other members in order."""
    path = [p for p in path if p]
    tree = _norm_docstrings(tree)  # the module docstring is a statement of its own: normalise before dumping statements
    res = resolve(tree, path)
    out = {"found": res is not None, "top": [], "siblings": None, "index": None}
    if res is None:
        out["top"] = [norm_dump(s) for s in tree.body]
        if len(path) > 1:
            # the enclosing class may exist although the member does not
            enc = resolve(tree, path[:-1])
            if enc is not None and isinstance(enc["node"], ast.ClassDef):
                out["siblings"] = [norm_dump(s) for s in enc["node"].body]
                out["enclosing_index"] = enc["chain"][0][1]
        return out
    top_container, top_idx = res["chain"][0]
    out["index"] = top_idx
    if len(path) == 1:
        out["top"] = [norm_dump(s) for i, s in enumerate(tree.body) if i != top_idx]
    else:
        out["top"] = [norm_dump(s) for i, s in enumerate(tree.body) if i != top_idx]
        cls = tree.body[top_idx]
        inner_container, inner_idx = res["chain"][-1]
        hdr = copy.copy(cls)
        hdr.body = []
        out["class_header"] = ast.dump(hdr)
        if isinstance(inner_idx, int):
            out["siblings"] = [norm_dump(s) for i, s in enumerate(inner_container.body) if i != inner_idx]
            out["member_index"] = inner_idx
    return out


def def_dump(tree, path):
    res = resolve(tree, path)
    return None if res is None else norm_dump(res["node"])


# ----------------------------------------------------------- interface extraction
def _is_add_argument(stmt):
    return (isinstance(stmt, ast.Expr) and isinstance(stmt.value, ast.Call) and isinstance(stmt.value.func, ast.Attribute)
            and stmt.value.func.attr == "add_argument")


def interface_names(node, kind):
    """Parameter names in order, straight from the syntax tree.
    kind: 'class' | 'function' | 'argparse_function'"""
    if node is None:
        return None
    if kind == "class":
        if not isinstance(node, ast.ClassDef):
            return None
        names = []
        for s in node.body:
            for t in _targets(s):
                if t != "return_type" and t not in names:
                    names.append(t)
        return names
    if not isinstance(node, (ast.FunctionDef, ast.AsyncFunctionDef)):
        return None
    if kind == "function":
        names = [a.arg for a in all_args(node)]
        if names and names[0] in ("self", "cls"):
            names = names[1:]
        return names
    if kind == "argparse_function":
        names = []
        for s in node.body:
            if _is_add_argument(s) and s.value.args:
                a0 = s.value.args[0]
                if isinstance(a0, ast.Constant) and isinstance(a0.value, str):
                    names.append(a0.value.lstrip("-"))
        return names
    return None


def interface_details(node, kind):
    """name -> {"default": (present, python value or source), "typ": source or None} from the plain tree."""
    out = {}
    if node is None:
        return out
    if kind == "class" and isinstance(node, ast.ClassDef):
        for s in node.body:
            if isinstance(s, ast.AnnAssign) and isinstance(s.target, ast.Name):
                out[s.target.id] = {"typ": ast.unparse(s.annotation), "default": _val(s.value)}
            elif isinstance(s, ast.Assign):
                for t in _targets(s):
                    out[t] = {"typ": None, "default": _val(s.value)}
    elif kind == "function" and isinstance(node, (ast.FunctionDef, ast.AsyncFunctionDef)):
        a = node.args
        pos = list(a.args)
        defaults = [None] * (len(pos) - len(a.defaults)) + list(a.defaults)
        for arg, d in zip(pos, defaults):
            out[arg.arg] = {"typ": ast.unparse(arg.annotation) if arg.annotation else None, "default": _val(d)}
        for arg, d in zip(a.kwonlyargs, a.kw_defaults):
            out[arg.arg] = {"typ": ast.unparse(arg.annotation) if arg.annotation else None, "default": _val(d)}
        if a.kwarg:
            out[a.kwarg.arg] = {"typ": None, "default": None}
        for k in ("self", "cls"):
            if pos and pos[0].arg == k:
                out.pop(k, None)
    elif kind == "argparse_function" and isinstance(node, (ast.FunctionDef, ast.AsyncFunctionDef)):
        for s in node.body:
            if _is_add_argument(s) and s.value.args and isinstance(s.value.args[0], ast.Constant):
                kw = {k.arg: k.value for k in s.value.keywords}
                out[str(s.value.args[0].value).lstrip("-")] = {
                    "typ": ast.unparse(kw["type"]) if "type" in kw else None,
                    "default": _val(kw.get("default")),
                    "required": _val(kw.get("required")),
                    "choices": ast.unparse(kw["choices"]) if "choices" in kw else None,
                    "help": _val(kw.get("help")),
                }
    return out


def interface_prose(node, kind):
    """name -> prose, read off the definition with a few regular expressions (independent of doctrans' docstring parsers):
    `:cvar name:` / `:param name:` fields of a ReST docstring (up to the next field or blank line), `help=` of add_argument.
    Returns None when the docstring is not in ReST field form (google / numpydoc): the caller then has no opinion."""
    import re

    if node is None:
        return None
    if kind == "argparse_function":
        out = {}
        for n, d in interface_details(node, kind).items():
            h = d.get("help")
            out[n] = h.get("v") if isinstance(h, dict) else None
        return out
    doc = ast.get_docstring(node, clean=True) if isinstance(node, (ast.ClassDef, ast.FunctionDef, ast.AsyncFunctionDef)) else None
    if doc is None:
        return {}
    if re.search(r"^\s*(Args|Arguments|Parameters|Returns|Attributes)\s*:?\s*$", doc, re.M):
        return None
    out = {}
    for m in re.finditer(r"^[ \t]*:(?:cvar|param|ivar)\s+(\w+):[ \t]*(.*(?:\n(?![ \t]*:|[ \t]*$).*)*)", doc, re.M):
        out[m.group(1)] = m.group(2)
    return out


def norm_prose(text):
    """Prose modulo white space, a trailing full stop and an announced default ('. Defaults to 5', ', defaults to x')."""
    import re

    if text is None:
        return None
    t = " ".join(str(text).split())
    t = re.split(r"[.,;]?\s*(?:[Dd]efaults? to|[Dd]efault value is|[Dd]efault:)\s", t + " ", maxsplit=1)[0]
    return t.strip().rstrip(".").strip()


def _val(node):
    if node is None:
        return None
    try:
        return {"v": ast.literal_eval(node)}
    except Exception:
        return {"code": ast.unparse(node)}


def body_statements(fn):
    """Non-interface statements of a function (body minus docstring), as dumps."""
    if not isinstance(fn, (ast.FunctionDef, ast.AsyncFunctionDef)):
        return []
    body = fn.body
    if body and isinstance(body[0], ast.Expr) and isinstance(body[0].value, ast.Constant) and isinstance(body[0].value.value, str):
        body = body[1:]
    return [ast.dump(s) for s in body]
