"""dtsim - deterministic simulation with fault injection for SamuelMarks/doctrans.

See /verif/DESIGN.md.  Nothing here imports doctrans at module import time:
`dtsim.core.load_doctrans()` does that, after the I/O seam has been installed.
"""
