"""Delta debugging on scenarios (DESIGN §2.6).  A candidate is accepted iff executing
it in a fresh world yields a violation with the *same signature*."""
import copy
import time


def has_sig(result, sig):
    for v in result["violations"]:
        if v["sig"] == sig:
            return v
    return None


def shrink_project(execute, scenario, sig, max_attempts=250, max_seconds=45.0):
    """execute: scenario -> result dict.  Returns (minimised scenario, attempts)."""
    t0 = time.monotonic()
    attempts = [0]
    best = copy.deepcopy(scenario)
    best.pop("twin_check", None)

    def ok(cand):
        if attempts[0] >= max_attempts or time.monotonic() - t0 > max_seconds:
            return False
        attempts[0] += 1
        try:
            r = execute(cand)
        except Exception:
            return False
        return has_sig(r, sig) is not None

    if not ok(best):
        return copy.deepcopy(scenario), attempts[0]

    def try_(mut):
        nonlocal best
        cand = copy.deepcopy(best)
        if mut(cand) is False:
            return False
        if cand == best:
            return False
        if ok(cand):
            best = cand
            return True
        return False

    # 1. cut ops after the failing one
    r = execute(best)
    v = has_sig(r, sig)
    if v is not None:
        idx = v["op_index"]
        try_(lambda c: c.__setitem__("ops", c["ops"][: idx + 1]))

    # 2. drop earlier ops, one at a time from the back (env ops included), until fixpoint
    changed = True
    while changed:
        changed = False
        for i in range(len(best["ops"]) - 2, -1, -1):
            if try_(lambda c, i=i: c["ops"].pop(i) and None):
                changed = True
    # 3. drop faults that are not needed
    for i in range(len(best["ops"])):
        if best["ops"][i].get("fault"):
            try_(lambda c, i=i: c["ops"][i].pop("fault") and None)
    # 4. fold env ops into the initial files where possible (an env op before any doctrans op is an initial file)
    def fold(c):
        while c["ops"] and c["ops"][0]["op"] == "env" and "text" in c["ops"][0]:
            e = c["ops"].pop(0)
            if e.get("text") is None:
                c["files"].pop(e["path"], None)
            else:
                c["files"][e["path"]] = e["text"]
    try_(fold)
    # 5. simplify knobs
    try_(lambda c: c["knobs"].__setitem__("path_style", "abs"))
    try_(lambda c: c["knobs"].__setitem__("bufsize", 8192))
    # 6. sync ops: fewer files / kinds, api -> cli
    for i, op in enumerate(best["ops"]):
        if op["op"] == "sync":
            for kind in list(op["targets"]):
                if kind != op["truth"] and len(op["targets"]) > 2:
                    try_(lambda c, i=i, kind=kind: c["ops"][i]["targets"].pop(kind) and None)
            for kind in list(best["ops"][i]["targets"]):
                files = best["ops"][i]["targets"][kind]["files"]
                if len(files) > 1:
                    try_(lambda c, i=i, kind=kind: c["ops"][i]["targets"][kind].__setitem__("files", c["ops"][i]["targets"][kind]["files"][:1]))
        if op["op"] == "sync_properties" and len(op["pairs"]) > 1:
            for j in range(len(op["pairs"]) - 1, -1, -1):
                if len(best["ops"][i]["pairs"]) > 1:
                    try_(lambda c, i=i, j=j: c["ops"][i]["pairs"].pop(j) and None)
    # 7. remove initial files that are not needed
    for rel in sorted(best["files"]):
        try_(lambda c, rel=rel: c["files"].pop(rel) and None)
    # 8. remove chunks (statements separated by blank lines) from file texts
    def chunk_pass(getter, setter):
        text = getter(best)
        if not text:
            return
        sep = "\n\n\n"
        chunks = text.split(sep)
        if len(chunks) < 2:
            return
        i = len(chunks) - 1
        while i >= 0 and len(chunks) > 1:
            cand_chunks = chunks[:i] + chunks[i + 1:]
            new = sep.join(cand_chunks)
            if not new.endswith("\n") and text.endswith("\n"):
                new += "\n"
            if try_(lambda c, new=new: setter(c, new)):
                chunks = cand_chunks
            i -= 1

    for rel in sorted(best["files"]):
        chunk_pass(lambda b, rel=rel: b["files"].get(rel), lambda c, new, rel=rel: c["files"].__setitem__(rel, new))
    for i, op in enumerate(best["ops"]):
        if op["op"] == "env" and op.get("text"):
            chunk_pass(lambda b, i=i: b["ops"][i].get("text"), lambda c, new, i=i: c["ops"][i].__setitem__("text", new))
    return best, attempts[0]
