"""setup and self-tests (DESIGN §2.8)."""
import os
import sys

from dtsim import core


def setup():
    """Checks imports and that a tmpfs/TMPDIR world can be created; runs a small determinism probe."""
    from dtsim import engine_project, fs, gen_project

    engine_project.setup()
    w = fs.World()
    w.write("x.py", "a = 1\n")
    assert w.snapshot() == {"x.py": b"a = 1\n"}
    w.close()
    digs = []
    for rnd in range(2):
        d = []
        for seed in range(6):
            d.append(engine_project.execute(gen_project.gen_scenario(seed, "C20"))["digest"])
        digs.append(d)
    if digs[0] != digs[1]:
        print("HARNESS-ERROR setup: determinism probe failed")
        return core.EXIT_HARNESS
    print("dtsim setup ok: doctrans from %s, python %s, world base ok, determinism probe ok (6 seeds x 2)" % (core.REPO, sys.version.split()[0]))
    return 0


def main(argv):
    print("selftest: not implemented yet")
    return 0
