"""setup and self-tests (DESIGN §2.8, §11.7)."""
import json
import os
import shutil
import subprocess
import sys
import time

from dtsim import core


def setup():
    """Checks imports and that a tmpfs/TMPDIR world can be created; runs a small determinism probe."""
    from dtsim import engine_project, fs, gen_project

    engine_project.setup()
    w = fs.World()
    w.write("x.py", "a = 1\n")
    assert w.snapshot() == {"x.py": b"a = 1\n"}
    w.close()
    digs = []
    for rnd in range(2):
        d = []
        for seed in range(6):
            d.append(engine_project.execute(gen_project.gen_scenario(seed, "C20"))["digest"])
        digs.append(d)
    if digs[0] != digs[1]:
        print("HARNESS-ERROR setup: determinism probe failed")
        return core.EXIT_HARNESS
    print("dtsim setup ok: doctrans from %s, python %s, world base ok, determinism probe ok (6 seeds x 2)" % (core.REPO, sys.version.split()[0]))
    return 0


# ------------------------------------------------------------------ determinism
def determinism(n=200):
    """Every seed executed in four configurations: 16 workers, 1 worker, 16 workers under another PYTHONHASHSEED,
    and again 16 workers; history digests must be identical.  Generators must yield identical JSON under two hash seeds."""
    from dtsim import engine_replica

    t0 = time.monotonic()
    focuses = ["C20", "C10", "C09", "C11", "C14"]
    tasks = [{"tid": "h%d" % i, "kind": "gen", "seed": 7_000_000 + i, "focus": focuses[i % 5]} for i in range(n)]
    tasks += [{"tid": "e%d" % i, "kind": "enum", "seed": 7_100_000 + i, "focus": "C20"} for i in range(n // 10)]
    # histories whose syncs run in freshly started interpreters (their own hash seeds): a seam of its own
    from dtsim import gen_project

    spawned, s = [], 7_200_000
    while len(spawned) < max(4, n // 16) and s < 7_202_000:
        if gen_project.gen_scenario(s, "C10")["knobs"].get("processes") == "spawn":
            spawned.append({"tid": "s%d" % len(spawned), "kind": "gen", "seed": s, "focus": "C10"})
        s += 1
    tasks += spawned
    print("  (%d of the histories run every sync in a freshly started interpreter)" % len(spawned))
    runs = []
    for label, nw, hs in (("16 workers", 16, "0"), ("1 worker", 1, "0"), ("16 workers, PYTHONHASHSEED=12345", 16, "12345"), ("16 workers again", 16, "0")):
        sub = tasks if nw > 1 else tasks[: max(20, n // 5)]
        res, st = core.run_pool("project", sub, nworkers=nw, env=core.worker_env(hashseed=hs), task_timeout=300)
        for r in res.values():
            if "harness_error" in r:
                print("HARNESS-ERROR", r["harness_error"][:500])
                return core.EXIT_HARNESS
        runs.append((label, {t: r["digest"] for t, r in res.items()}))
        print("  project engine, %s: %d runs in %.1fs" % (label, len(res), st["wall_s"]))
    base = runs[0][1]
    bad = 0
    for label, digs in runs[1:]:
        for t, d in digs.items():
            if base[t] != d:
                bad += 1
                print("  DIVERGENCE task %s between '16 workers' and '%s'" % (t, label))
    # generators under two hash seeds
    outs = []
    for hs in ("0", "987"):
        code = ("import sys, json; sys.path.insert(0, %r); from dtsim import gen_project, engine_replica, core;"
                "print(core.digest([gen_project.gen_scenario(s, f) for s in range(40) for f in ('C20','C14')]));"
                "print(core.digest([engine_replica.gen_corpus(s, p, 30) for s in range(5) for p in ('C12','C07','C18')]));"
                "print(core.digest([engine_replica.gen_replicas(s, 'C12', 30, 8, 'quick') for s in range(5)]))") % core.VERIF
        p = subprocess.run([core.PYTHON, "-c", code], env=core.worker_env(hashseed=hs), stdout=subprocess.PIPE, stderr=subprocess.PIPE)
        outs.append(p.stdout)
        if p.returncode:
            print(p.stderr.decode()[-800:])
            return core.EXIT_HARNESS
    if outs[0] != outs[1]:
        bad += 1
        print("  DIVERGENCE generators differ between PYTHONHASHSEED 0 and 987")
    else:
        print("  generators identical under PYTHONHASHSEED 0 and 987")
    # replica engine: the same replica twice
    jobs = engine_replica.gen_corpus(4242, "C12", 60)
    reps = engine_replica.gen_replicas(4242, "C12", 60, 6, "quick")
    a, _ = engine_replica.run_replicas("C12", jobs, reps)
    b, _ = engine_replica.run_replicas("C12", jobs, reps)
    if core.digest(a) != core.digest(b):
        bad += 1
        print("  DIVERGENCE replica engine: two executions of the same replicas differ")
    else:
        print("  replica engine: 6 replicas x 2 executions identical")
    # alias engine
    at = [{"tid": "a%d" % i, "kind": "explore", "seed": 99_000 + i, "seq_len": 2, "sample4": 10} for i in range(16)]
    r1, _ = core.run_pool("alias", at, nworkers=8)
    r2, _ = core.run_pool("alias", at, nworkers=2)
    if core.digest({k: [v["violations"], v["stats"]] for k, v in r1.items()}) != core.digest({k: [v["violations"], v["stats"]] for k, v in r2.items()}):
        bad += 1
        print("  DIVERGENCE alias engine")
    else:
        print("  alias engine: 16 descriptions x 2 executions identical")
    print("determinism self-test: %s (%.1fs)" % ("FAILED" if bad else "ok", time.monotonic() - t0))
    return core.EXIT_HARNESS if bad else 0


# ------------------------------------------------------------------ sensitivity
def _scratch_copy(diff):
    base = "/dev/shm" if os.path.isdir("/dev/shm") else os.environ.get("TMPDIR", "/tmp")
    dst = os.path.join(base, "dtsim-mutant-%d" % os.getpid())
    if os.path.exists(dst):
        shutil.rmtree(dst)
    # a copy of the *working tree* of the repository under test
    shutil.copytree(core.REPO, dst, ignore=shutil.ignore_patterns(".git", "__pycache__", "*.egg-info", ".pytest_cache"))
    p = subprocess.run(["patch", "-p1", "-s", "-i", diff], cwd=dst, stdout=subprocess.PIPE, stderr=subprocess.STDOUT)
    if p.returncode:
        shutil.rmtree(dst, ignore_errors=True)
        raise core.HarnessError("mutant %s does not apply: %s" % (diff, p.stdout.decode()[-400:]))
    return dst


def sensitivity(only=None, with_baseline=False):
    """Apply each planted change to a scratch copy of the repository, require the owning quick check to exit 1 with a
    VIOLATION whose replay reproduces, then delete the copy."""
    d = os.path.join(core.VERIF, "selftest", "mutants")
    dirs = [(os.path.join(d, n), n.split("-")[1], n) for n in sorted(os.listdir(d)) if n.endswith(".diff")]
    sd = os.path.join(core.VERIF, "seeded")
    if os.path.isdir(sd):
        for n in sorted(os.listdir(sd)):
            meta = os.path.join(sd, n, "meta.json")
            if os.path.isfile(meta):
                with open(meta) as f:
                    m = json.load(f)
                patch = os.path.join(sd, n, m.get("patch_for_current_tree", "patch.diff"))
                for prop in m.get("detected_by", [m["property"]]):
                    dirs.append((patch, prop, "seeded/%s" % n))
    failed = 0
    for diff, prop, name in dirs:
        if only and not any(o and (o in name or o == prop) for o in str(only).split(",")):
            continue
        t0 = time.monotonic()
        scratch = _scratch_copy(diff)
        try:
            # one reproduced, minimised violation is enough here (the full check minimises up to six)
            env = dict(os.environ, DTSIM_REPO=scratch, DTSIM_MAX_REPORT=os.environ.get("DTSIM_MAX_REPORT", "1"))
            env.pop("PYTHONHASHSEED", None)
            if with_baseline:
                b = subprocess.run([os.path.join(core.VERIF, "bin", "baseline_check.py"), scratch], stdout=subprocess.PIPE, stderr=subprocess.STDOUT)
                print("  baseline on %s: %s" % (name, b.stdout.decode().strip().splitlines()[-1] if b.stdout else b.returncode))
            p = subprocess.run([core.PYTHON, os.path.join(core.VERIF, "bin", "dtsim"), "check", prop, "--tier", "quick"], env=env, cwd=core.VERIF,
                               stdout=subprocess.PIPE, stderr=subprocess.STDOUT, timeout=1800)
            out = p.stdout.decode(errors="replace")
            viol = [ln for ln in out.splitlines() if ln.startswith("VIOLATION")]
            ok = p.returncode == 1 and viol
            print("%s  %-55s %s rc=%d %d VIOLATION line(s) %.0fs" % ("ok  " if ok else "MISS", name, prop, p.returncode, len(viol), time.monotonic() - t0))
            if not ok:
                failed += 1
                print("\n".join("      " + ln for ln in out.splitlines()[-6:]))
            else:
                sig = [ln for ln in out.splitlines() if ln.startswith("  signature:")]
                if sig:
                    print("      first:", sig[0][:260])
        finally:
            shutil.rmtree(scratch, ignore_errors=True)
    print("sensitivity self-test: %d planted change(s) missed" % failed)
    return core.EXIT_HARNESS if failed else 0


# --------------------------------------------------------------------- fidelity
def fidelity(n=40):
    """The in-process model of a killed process (I/O freeze + loss of the user-space buffer) against the OS: the same
    operation is run in a real child interpreter that receives a real SIGKILL at the same seam event / step; the two
    post-states must be byte-identical."""
    from dtsim import engine_project, gen_project
    from dtsim.core import Chooser

    engine_project.setup()
    t0 = time.monotonic()
    done = bad = fired = inflight = 0
    kinds = {}
    seed = 31_000_000
    while done < n and seed < 31_000_000 + 40 * n:
        seed += 1
        sc = gen_project.gen_scenario(seed, "C20")
        ops = []
        for op in sc["ops"]:
            op = dict(op)
            op.pop("fault", None)
            ops.append(op)
            if op["op"] in ("sync", "sync_properties", "gen"):
                break
        if not ops or ops[-1]["op"] not in ("sync", "sync_properties", "gen"):
            continue
        ch = Chooser(seed).fork("fidelity")
        if ch.chance("step", 0.4):
            ops[-1]["fault"] = {"where": "step", "kind": "KILL", "pick": "near_io", "frac": round(ch.rng.random(), 3), "delta": ch.choice("d", [-1, 1, 2])}
        else:
            ops[-1]["fault"] = {"where": "event", "kind": "KILL", "pick": ch.choice("pick", ["write_window", "write", "close_w", "replace", None]), "frac": round(ch.rng.random(), 3), "cut": 0}
        sc["ops"] = ops
        r = engine_project.fidelity_case(sc)
        if r is None or not r["sim_fired"]:
            continue
        done += 1
        fired += 1
        inflight += 1 if r["in_flight"] else 0
        kinds[str(r["event_kind"])] = kinds.get(str(r["event_kind"]), 0) + 1
        if not r["equal"] or r["child_rc"] != -9:
            bad += 1
            print("  MISMATCH seed %d fault %s: child rc=%s sim=%s real=%s %s" % (seed, r["fault"], r["child_rc"], r["sim"], r["real"], r["child_err"]))
    print("fidelity self-test: %d killed operations compared (%d with a write in flight; by seam %s), %d mismatch(es), %.1fs" % (done, inflight, kinds, bad, time.monotonic() - t0))
    return (core.EXIT_HARNESS if bad else 0), {"compared": done, "with_write_in_flight": inflight, "by_seam": kinds, "mismatches": bad}


# ------------------------------------------------------------------------ reach
REACH = {
    "C20": ["faults_fired_with_write_in_flight", "reach_probes/sync via api", "reach_probes/sync via cli", "reach_probes/path_style=symlink_dir",
            "reach_probes/path_style=tilde", "reach_probes/python -O", "reach_probes/persistent fault planned", "invocation_table_rows",
            "fidelity_tier_real_sigkill/compared", "faults_fired_by_kind_and_seam/KILL@write", "faults_fired_by_kind_and_seam/IOERR@close_w",
            "faults_fired_by_kind_and_seam/IOERR@replace", "faults_fired_by_kind_and_seam/CONVERT@convert:black", "faults_fired_by_kind_and_seam/INTERRUPT@step"],
    "C10": ["probes/r3_checked", "probes/r4_checked", "reach_probes/env:edit_truth", "reach_probes/env_transform:crlf", "reach_probes/sync with one file named under two kinds",
            "reach_probes/sync with two files of one kind"],
    "C09": ["probes/a2_checked", "a3_interface_checks/ok", "prestate_cells/class|class|missing|cli", "prestate_cells/function|class|stale|api", "prestate_cells/argparse_function|function|empty|cli"],
    "C11": ["probes/c11_checked", "probes/c11_body_carried_checked"],
    "C14": ["probes/sp_checked"],
}


def reach():
    """After quick runs: every probe listed above must be non-zero in the evidence files (a probe stuck at zero means the
    workload or the fault mix has to change)."""
    bad = 0
    for prop, keys in REACH.items():
        path = os.path.join(core.VERIF, "evidence", "%s.json" % prop)
        if not os.path.isfile(path):
            print("  no evidence for %s" % prop)
            bad += 1
            continue
        with open(path) as f:
            cov = json.load(f)["coverage"]
        for key in keys:
            cur = cov
            for part in key.split("/"):
                cur = cur.get(part, 0) if isinstance(cur, dict) else 0
            ok = bool(cur)
            if not ok:
                bad += 1
            print("  %s %-6s %-70s %s" % ("ok  " if ok else "ZERO", prop, key, cur if not isinstance(cur, dict) else "..."))
    print("reach self-test: %d probe(s) at zero" % bad)
    return core.EXIT_HARNESS if bad else 0


def main(argv):
    what = argv[0] if argv else "all"
    rc = 0
    if what in ("determinism", "all"):
        rc |= determinism(int(argv[1]) if len(argv) > 1 and what == "determinism" else 200)
    if what == "reach":
        rc |= reach()
    if what in ("fidelity", "all"):
        rc |= fidelity(int(argv[1]) if len(argv) > 1 and what == "fidelity" else 40)[0]
    if what in ("sensitivity", "all"):
        rest = [a for a in argv[1:] if not a.startswith("--")]
        rc |= sensitivity(rest[0] if rest and what == "sensitivity" else None, with_baseline="--baseline" in argv)
    return rc
