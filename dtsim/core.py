"""Core of dtsim: seeds, choosers, canonical JSON, doctrans loader, worker pool,
known-findings file, evidence writer.  No wall-clock value and no PRNG draw ever
enters a log or a decision made here; wall time is only used for budgets and for
the `wall_s` field of evidence files.
"""
import hashlib
import json
import os
import random
import selectors
import subprocess
import sys
import time

VERIF = os.path.dirname(os.path.dirname(os.path.abspath(__file__)))
REPO = os.path.realpath(os.environ.get("DTSIM_REPO", "/repo"))
PYTHON = sys.executable
LAUNCHER = os.path.join(VERIF, "bin", "dtsim")
SEED_STRIDE = 1_000_003

EXIT_OK, EXIT_VIOLATION, EXIT_HARNESS = 0, 1, 2


class HarnessError(Exception):
    """Something in the machinery (not in doctrans) went wrong: exit 2, never 0 or 1."""


# --------------------------------------------------------------------------- JSON
def canon(obj):
    """Canonical JSON text (sorted keys, no whitespace variance)."""
    return json.dumps(obj, sort_keys=True, separators=(",", ":"), ensure_ascii=True, default=_default)


def _default(o):
    if isinstance(o, (set, frozenset)):
        return sorted(o)
    if isinstance(o, bytes):
        return {"__bytes__": o.decode("latin-1")}
    if isinstance(o, tuple):
        return list(o)
    return repr(o)


def digest(obj):
    return hashlib.sha256(canon(obj).encode()).hexdigest()


def sha(data):
    if isinstance(data, str):
        data = data.encode("utf-8", "surrogatepass")
    return hashlib.sha256(data).hexdigest()[:16]


def base_seed():
    try:
        return int(os.environ.get("VERIF_SEED", "0"))
    except ValueError:
        return 0


def run_seed(base, i):
    return base * SEED_STRIDE + i


# ------------------------------------------------------------------------ Chooser
class Chooser(object):
    """Single source of every random decision of a run.

    Every draw is labelled; the labels and values form the run's decision log.
    Logging never draws."""

    def __init__(self, seed):
        self.seed = seed
        self.rng = random.Random(seed)
        self.log = []

    def _rec(self, label, value):
        self.log.append((label, value))
        return value

    def int(self, label, lo, hi):
        return self._rec(label, self.rng.randint(lo, hi))

    def chance(self, label, p):
        return self._rec(label, self.rng.random() < p)

    def choice(self, label, seq):
        seq = list(seq)
        idx = self.rng.randrange(len(seq))
        self._rec(label, idx)
        return seq[idx]

    def weighted(self, label, pairs):
        """pairs: [(item, weight)]"""
        pairs = list(pairs)
        total = sum(w for _, w in pairs)
        x = self.rng.random() * total
        acc = 0.0
        for idx, (item, w) in enumerate(pairs):
            acc += w
            if x < acc:
                self._rec(label, idx)
                return item
        self._rec(label, len(pairs) - 1)
        return pairs[-1][0]

    def sample(self, label, seq, k):
        seq = list(seq)
        idxs = self.rng.sample(range(len(seq)), k)
        self._rec(label, idxs)
        return [seq[i] for i in idxs]

    def shuffle(self, label, seq):
        seq = list(seq)
        idxs = list(range(len(seq)))
        self.rng.shuffle(idxs)
        self._rec(label, idxs)
        return [seq[i] for i in idxs]

    def subset(self, label, seq, p=0.5, at_least=0):
        seq = list(seq)
        picked = [x for x in seq if self.rng.random() < p]
        while len(picked) < at_least:
            rest = [x for x in seq if x not in picked]
            picked.append(rest[self.rng.randrange(len(rest))])
        picked = [x for x in seq if x in picked]
        self._rec(label, [seq.index(x) for x in picked])
        return picked

    def fork(self, label):
        """A child chooser whose stream is a function of (seed, label) only, so that
        adding draws in one part of the generator does not shift another part."""
        h = int(hashlib.sha256(("%d/%s" % (self.seed, label)).encode()).hexdigest()[:15], 16)
        return Chooser(h)


# ----------------------------------------------------------------- doctrans loader
_loaded = {}


def load_doctrans():
    """Import doctrans from REPO's *working tree* (never from an installed copy,
    never writing byte code) and return a namespace of the modules used."""
    if _loaded:
        return _loaded["ns"]
    sys.dont_write_bytecode = True
    import warnings

    warnings.simplefilter("ignore")
    if sys.path[0] != REPO:
        sys.path.insert(0, REPO)
    # CPython 3.12 vs the `meta` package: the first import raises KeyError, the second works (DESIGN §1e)
    try:
        from meta.asttools import cmp_ast  # noqa: F401
    except KeyError:
        from meta.asttools import cmp_ast  # noqa: F401
    import logging

    import doctrans

    where = os.path.realpath(os.path.dirname(doctrans.__file__))
    if where != os.path.join(REPO, "doctrans"):
        raise HarnessError("doctrans imported from %s, expected %s/doctrans" % (where, REPO))
    import doctrans.__main__ as dt_main
    import doctrans.ast_utils as dt_ast_utils
    import doctrans.conformance as dt_conformance
    import doctrans.emit as dt_emit
    import doctrans.gen as dt_gen
    import doctrans.parse as dt_parse
    import doctrans.source_transformer as dt_st
    import doctrans.sync_properties as dt_sp

    logging.disable(logging.CRITICAL)

    class NS(object):
        pass

    ns = NS()
    ns.doctrans = doctrans
    ns.main = dt_main
    ns.ast_utils = dt_ast_utils
    ns.conformance = dt_conformance
    ns.emit = dt_emit
    ns.gen = dt_gen
    ns.parse = dt_parse
    ns.st = dt_st
    ns.sp = dt_sp
    ns.pkg_dir = where
    ns.gen_globals = dict(dt_gen.__dict__)
    _loaded["ns"] = ns
    return ns


def repo_tree_hash():
    h = hashlib.sha256()
    base = os.path.join(REPO, "doctrans")
    for name in sorted(os.listdir(base)):
        if name.endswith(".py"):
            with open(os.path.join(base, name), "rb") as f:
                h.update(name.encode())
                h.update(f.read())
    return h.hexdigest()[:16]


# -------------------------------------------------------------------- known findings
KNOWN_FILE = os.path.join(VERIF, "known-findings.txt")


def load_known(path=KNOWN_FILE):
    """Lines:  open: property=<id> id=<Fnn> match=<json> :: <text>
               fixed: property=<id> <commit> <text>      (suppresses nothing)"""
    out = []
    if not os.path.isfile(path):
        return out
    with open(path, "rt") as f:
        for raw in f:
            line = raw.strip()
            if not line or line.startswith("#"):
                continue
            if line.startswith("open:"):
                head, _, text = line[len("open:"):].partition("::")
                head = head.strip()
                prop = head.split("property=", 1)[1].split()[0]
                fid = head.split("id=", 1)[1].split()[0]
                match = json.loads(head.split("match=", 1)[1])
                out.append({"property": prop, "id": fid, "match": match, "text": text.strip()})
    return out


def sig_matches(sig, match):
    for k, want in match.items():
        if k.endswith("__any"):
            # the signature holds a list under k[:-5]; the entry matches if any element is listed
            have = sig.get(k[:-5]) or []
            if not any(x in want for x in have):
                return False
            continue
        have = sig.get(k)
        if isinstance(want, list):
            if have not in want:
                return False
        elif have != want:
            return False
    return True


def known_for(sig, known):
    for k in known:
        if k["property"] == sig.get("property") and sig_matches(sig, k["match"]):
            return k
    return None


# ------------------------------------------------------------------------ evidence
def write_evidence(prop, tier, seed, level, coverage, wall_s, violations, assumptions, extra=None):
    path = os.path.join(VERIF, "evidence", "%s.json" % prop)
    os.makedirs(os.path.dirname(path), exist_ok=True)
    doc = {
        "property_id": prop,
        "tier": tier,
        "seed": seed,
        "level": level,
        "coverage": coverage,
        "assumptions": assumptions,
        "wall_s": round(wall_s, 3),
        "violations": violations,
    }
    if extra:
        doc.update(extra)
    tmp = path + ".tmp%d" % os.getpid()
    with open(tmp, "wt") as f:
        json.dump(doc, f, indent=1, sort_keys=True, default=_default)
        f.write("\n")
    os.replace(tmp, path)
    return path


# --------------------------------------------------------------------- worker pool
def worker_env(hashseed="0", extra=None):
    env = dict(os.environ)
    env["PYTHONHASHSEED"] = str(hashseed)
    env["PYTHONDONTWRITEBYTECODE"] = "1"
    env["PYTHONWARNINGS"] = "ignore"
    env.pop("DOCTRANS_LINE_LENGTH", None)
    env["DTSIM_REPO"] = REPO
    if extra:
        for k, v in extra.items():
            if v is None:
                env.pop(k, None)
            else:
                env[k] = str(v)
    return env


class _Worker(object):
    def __init__(self, idx, role, env):
        self.idx = idx
        self.proc = subprocess.Popen(
            [PYTHON, "-W", "ignore", LAUNCHER, "worker", role],
            stdin=subprocess.PIPE,
            stdout=subprocess.PIPE,
            stderr=subprocess.PIPE,
            env=env,
            cwd=VERIF,
            bufsize=0,
        )
        self.task = None
        self.started = None
        self.buf = b""

    def send(self, task):
        self.task = task
        self.started = time.monotonic()
        self.proc.stdin.write((json.dumps(task) + "\n").encode())
        self.proc.stdin.flush()

    def kill(self):
        try:
            self.proc.kill()
        except OSError:
            pass
        for s in (self.proc.stdin, self.proc.stdout, self.proc.stderr):
            try:
                s.close()
            except Exception:
                pass
        try:
            self.proc.wait(timeout=5)
        except Exception:
            pass


def run_pool(role, tasks, nworkers=None, task_timeout=120.0, budget_s=None, env=None, on_result=None):
    """Run `tasks` (JSON-able dicts, each with a unique 'tid') on persistent worker
    interpreters.  Returns (results by tid, stats).  A worker that dies or exceeds
    `task_timeout` raises HarnessError (exit 2): a timeout can never look like a pass.
    If `budget_s` elapses, remaining tasks are not started (stats['skipped'])."""
    nworkers = nworkers or int(os.environ.get("DTSIM_WORKERS", "0")) or min(16, os.cpu_count() or 1)
    tasks = list(tasks)
    nworkers = max(1, min(nworkers, len(tasks)))
    env = env or worker_env()
    sel = selectors.DefaultSelector()
    workers = []
    results = {}
    t0 = time.monotonic()
    pending = list(reversed(tasks))
    skipped = 0
    try:
        for i in range(nworkers):
            w = _Worker(i, role, env)
            workers.append(w)
            sel.register(w.proc.stdout, selectors.EVENT_READ, w)
        idle = list(workers)
        busy = 0
        while True:
            while idle and pending:
                if budget_s is not None and time.monotonic() - t0 > budget_s:
                    skipped += len(pending)
                    pending = []
                    break
                w = idle.pop()
                w.send(pending.pop())
                busy += 1
            if busy == 0:
                break
            events = sel.select(timeout=1.0)
            now = time.monotonic()
            for key, _ in events:
                w = key.data
                chunk = os.read(key.fileobj.fileno(), 1 << 16)
                if not chunk:
                    err = b""
                    try:
                        err = w.proc.stderr.read() or b""
                    except Exception:
                        pass
                    raise HarnessError(
                        "worker %d died on task %r: %s" % (w.idx, (w.task or {}).get("tid"), err.decode(errors="replace")[-2000:])
                    )
                w.buf += chunk
                while b"\n" in w.buf:
                    line, w.buf = w.buf.split(b"\n", 1)
                    if not line.startswith(b"@@R "):
                        continue  # stray output of the code under test
                    res = json.loads(line[4:].decode())
                    results[res["tid"]] = res
                    if on_result:
                        on_result(res)
                    w.task = None
                    busy -= 1
                    idle.append(w)
            for w in workers:
                if w.task is not None and now - w.started > task_timeout:
                    raise HarnessError("worker %d exceeded %.0fs on task %r" % (w.idx, task_timeout, w.task.get("tid")))
    finally:
        for w in workers:
            w.kill()
        sel.close()
    return results, {"workers": nworkers, "wall_s": time.monotonic() - t0, "skipped": skipped}


def worker_loop(handler):
    """Child side of run_pool: read one JSON task per line, answer '@@R <json>'."""
    import faulthandler

    faulthandler.enable()
    out = os.fdopen(os.dup(1), "wb", buffering=0)
    # anything the code under test prints goes to stderr's sink, not into the protocol
    devnull = open(os.devnull, "w")
    sys.stdout = devnull
    for raw in sys.stdin.buffer:
        raw = raw.strip()
        if not raw:
            continue
        task = json.loads(raw.decode())
        faulthandler.dump_traceback_later(task.get("_deadline", 110), exit=True)
        try:
            res = handler(task)
        except HarnessError as e:
            res = {"harness_error": str(e)}
        except Exception as e:  # a bug in the harness itself
            import traceback

            res = {"harness_error": "%s: %s\n%s" % (type(e).__name__, e, traceback.format_exc()[-3000:])}
        faulthandler.cancel_dump_traceback_later()
        res["tid"] = task["tid"]
        out.write(b"@@R " + json.dumps(res, default=_default).encode() + b"\n")
