"""The world (a tmpfs directory), the I/O seam, the step seam and the simulated
process of engine A (DESIGN §2.2-2.4).

`install()` must be called *before* doctrans is imported, so that even
`from os import replace`-style bindings inside doctrans capture the dispatching
wrappers.  The wrappers pass straight through unless a simulation is active and
the path lies inside the active world's root.
"""
import _io
import builtins
import contextlib
import errno as _errno
import io
import linecache
import os
import shutil
import sys
import traceback

from dtsim.core import HarnessError

# saved originals -----------------------------------------------------------------
_orig_open = builtins.open
_orig = {}
_OS_PATH_FUNCS_1 = ("remove", "unlink", "truncate", "chmod", "utime", "mkdir", "rmdir")
_OS_PATH_FUNCS_2 = ("replace", "rename", "link", "symlink")
_OS_FD_FUNCS = ("fsync", "fdatasync", "ftruncate")

_ACTIVE = None  # the Sim of the simulated process currently running, or None
_installed = False
_TOOL = 3
_pkg_dir = None  # set by install_step_seam(): .../doctrans


class Killed(BaseException):
    """The simulated process has been SIGKILLed: nothing it does from now on has any effect."""


class SimFault(object):
    """Marker mix-in so that the harness can tell its own injected exceptions apart."""


class SimOSError(OSError, SimFault):
    pass


class SimInterrupt(KeyboardInterrupt, SimFault):
    pass


class SimMemoryError(MemoryError, SimFault):
    pass


class SimConvertError(ValueError, SimFault):
    pass


ERRNOS = {
    "EIO": _errno.EIO,
    "EACCES": _errno.EACCES,
    "ENOSPC": _errno.ENOSPC,
    "EROFS": _errno.EROFS,
    "EMFILE": _errno.EMFILE,
    "EDQUOT": _errno.EDQUOT,
}

PERSIST_EVENT_KINDS = ("open_w", "open_a", "os_open_w", "write", "flush", "close_w", "truncate")
WRITE_EVENT_KINDS = ("open_w", "open_a", "write", "flush", "close_w", "replace", "rename", "remove", "fsync", "os_open_w", "truncate")


# ------------------------------------------------------------------------- World
class World(object):
    """A real directory on tmpfs holding the user's project."""

    _n = 0

    def __init__(self, attach=None):
        if attach:
            self.root = os.path.realpath(attach)  # an existing world created by another (parent) process
            return
        base = "/dev/shm" if os.path.isdir("/dev/shm") and os.access("/dev/shm", os.W_OK) else os.environ.get("TMPDIR", "/tmp")
        World._n += 1
        self.root = os.path.realpath(os.path.join(base, "dtsim-%d-%d" % (_orig.get("getpid", os.getpid)(), World._n)))
        if os.path.exists(self.root):
            shutil.rmtree(self.root)
        os.makedirs(self.root)

    def path(self, rel):
        return os.path.join(self.root, rel)

    # -- the same project reached through symbolic links (they live *next to* the project directory, so that
    #    snapshots of the project never contain them)
    def _links_dir(self):
        d = self.root + ".links"
        if not os.path.isdir(d):
            os.makedirs(d)
        return d

    def alias_dir(self):
        link = os.path.join(self._links_dir(), "project")
        if not os.path.islink(link):
            _orig.get("symlink", os.symlink)(self.root, link)  # (the user's doing, not an event of the simulated process)
        return link

    def alias_file(self, rel):
        link = os.path.join(self._links_dir(), "link_" + rel.replace(os.sep, "_"))
        if not os.path.islink(link):
            if os.path.lexists(link):
                # an earlier operation replaced the user's link by a regular file (what it wrote is in that file, the
                # project file behind the link was not touched: the oracles see that); the user restores the link
                _orig["remove"](link)
            _orig.get("symlink", os.symlink)(self.path(rel), link)
        return link

    def rel(self, p):
        p = os.path.abspath(_fs(p))
        if p == self.root:
            return "."
        links = self.root + ".links" + os.sep
        if p.startswith(links):
            rest = p[len(links):]
            if rest.startswith("project" + os.sep):
                return rest[len("project") + 1:]
            if rest.startswith("link_"):
                return rest[len("link_"):]
            return "<links>/" + rest
        return p[len(self.root) + 1:]

    def snapshot(self):
        snap = {}
        for dirpath, dirnames, filenames in os.walk(self.root):
            dirnames.sort()
            for fn in sorted(filenames):
                full = os.path.join(dirpath, fn)
                with _orig_open(full, "rb") as f:
                    snap[full[len(self.root) + 1:]] = f.read()
        return snap

    def hardlink(self, rel, suffix=".lnk"):
        """Give the file a second name (a hard link), as a backup tool or a vendoring script would."""
        src, dst = self.path(rel), self.path(rel + suffix)
        if os.path.isfile(src) and not os.path.exists(dst):
            _orig.get("link", os.link)(src, dst)
            if not hasattr(self, "hardlinks"):
                self.hardlinks = {}
            self.hardlinks[rel] = rel + suffix

    def restore(self, snap):
        self._restore(snap)
        # names that were hard links of one file and still hold the same bytes are one file again
        for a, b in sorted(getattr(self, "hardlinks", {}).items()):
            if a in snap and b in snap and snap[a] == snap[b]:
                _orig["remove"](self.path(b))
                _orig.get("link", os.link)(self.path(a), self.path(b))

    def _restore(self, snap):
        for name in os.listdir(self.root):
            full = os.path.join(self.root, name)
            if os.path.isdir(full) and not os.path.islink(full):
                shutil.rmtree(full)
            else:
                _orig["remove"](full)
        for rel, data in sorted(snap.items()):
            full = os.path.join(self.root, rel)
            d = os.path.dirname(full)
            if not os.path.isdir(d):
                os.makedirs(d)
            with _orig_open(full, "wb") as f:
                f.write(data)

    def write(self, rel, data):
        full = self.path(rel)
        if data is None:
            if os.path.exists(full):
                _orig["remove"](full)
            return
        d = os.path.dirname(full)
        if not os.path.isdir(d):
            os.makedirs(d)
        if isinstance(data, str):
            data = data.encode("utf-8")
        with _orig_open(full, "wb") as f:
            f.write(data)

    def close(self):
        shutil.rmtree(self.root, ignore_errors=True)
        shutil.rmtree(self.root + ".links", ignore_errors=True)


def _fs(p):
    p = os.fspath(p)
    if isinstance(p, bytes):
        p = os.fsdecode(p)
    return p


# --------------------------------------------------------------------------- Sim
class Sim(object):
    """State of one simulated process: event history, step counter, fault plan."""

    def __init__(self, world, fault=None, bufsize=8192, record_steps=False, real_kill=False):
        self.real_kill = real_kill  # fidelity tier: KILL is a real SIGKILL of this (child) process, buffering is CPython's own
        self.world = world
        self.root = world.root
        self.fault = fault  # dict or None
        self.bufsize = bufsize
        self.events = []
        self.steps = 0
        self.frozen = False
        self.fired = None  # description of the fault that fired
        self.open_files = []
        self.fds = {}
        self.created = set()  # rel paths this process created
        self.touched = set()  # rel paths this process opened for writing / renamed onto / removed
        self.write_in_flight_at_fault = False
        self.versions = {}  # rel -> [sha of the complete content after each finished write cycle (close of a written file / rename onto it)]
        self._boundary = set()
        self.step_sites = [] if record_steps else None
        self.step_at_event = []  # step counter value at each event

    # -- helpers
    def inside(self, p):
        try:
            p = os.path.abspath(_fs(p))
        except TypeError:
            return False
        return p == self.root or p.startswith(self.root + os.sep) or p.startswith(self.root + ".links" + os.sep)

    def rel(self, p):
        return self.world.rel(p)

    def in_flight(self):
        return any(f._writing and not f._closed for f in self.open_files) or any(v[1] for v in self.fds.values())

    # -- events
    def event(self, kind, rel, detail=None, ctx=None):
        if self.frozen:
            raise Killed()
        if self._boundary:
            self.note_versions()
        n = len(self.events)
        if kind in ("close_w", "replace", "rename") and rel is not None:
            self._boundary.add(rel)
        self.events.append({"n": n, "kind": kind, "path": rel, "detail": detail})
        if rel is not None and kind in WRITE_EVENT_KINDS:
            self.touched.add(rel)
        self.step_at_event.append(self.steps)
        f = self.fault
        if f is not None and self.fired is None and f.get("where") == "event" and f.get("index") == n:
            self._deliver(f, kind, rel, ctx or {})
        elif (f is not None and self.fired is not None and f.get("then") and "second" not in self.fired and self.fired["kind"] != "KILL"
              and kind in (("open_w", "open_a", "os_open_w") if f["then"].get("at") == "open" else ("write", "flush", "close_w"))):
            # a fault *sequence*: whatever the code does to a file after the first fault (an error handler that writes,
            # a retry) meets a second fault.  Code that writes nothing after the first fault never gets here.
            t = f["then"]
            self.fired["second"] = {"kind": t["kind"], "event_kind": kind, "path": rel, "n": n}
            if t["kind"] == "INTERRUPT":
                raise SimInterrupt("simulated second Ctrl-C")
            en = ERRNOS.get(t.get("errno", "EIO"), _errno.EIO)
            if kind == "write":
                self._write_prefix(ctx or {}, t.get("cut", 0.5))
            elif kind in ("close_w", "flush"):
                fobj = (ctx or {}).get("file")
                if fobj is not None:
                    fobj._pending = []
                    if kind == "close_w":
                        fobj._really_close()
            raise SimOSError(en, "simulated (second fault) " + os.strerror(en), rel)
        elif (f is not None and self.fired is not None and f.get("persist") and self.fired["kind"] == "IOERR" and kind in PERSIST_EVENT_KINDS
              and not (kind in ("open_w", "open_a", "os_open_w") and f.get("errno", "EIO") in ("ENOSPC", "EDQUOT", "EIO"))):
            # (opening - and truncating - a file still works on a full disk; it is the writes that keep failing)
            # a persistent condition (disk full, read-only remount, dead device): every later attempt to write fails too
            self.fired["repeats"] = self.fired.get("repeats", 0) + 1
            en = ERRNOS.get(f.get("errno", "EIO"), _errno.EIO)
            if kind == "write":
                self._write_prefix(ctx or {}, f.get("cut2", 0.5))
            elif kind in ("close_w", "flush"):
                fobj = (ctx or {}).get("file")
                if fobj is not None:
                    fobj._pending = []
                    if kind == "close_w":
                        fobj._really_close()
            raise SimOSError(en, "simulated (persistent) " + os.strerror(en), rel)

    def note_versions(self):
        import hashlib

        for rel in sorted(self._boundary):
            try:
                with _orig_open(os.path.join(self.root, rel), "rb") as f:
                    h = hashlib.sha256(f.read()).hexdigest()[:16]
            except OSError:
                continue
            lst = self.versions.setdefault(rel, [])
            if not lst or lst[-1] != h:
                lst.append(h)
        self._boundary.clear()

    def step(self, code):
        if self.frozen:
            return
        self.steps += 1
        if self.step_sites is not None:
            self.step_sites.append(code.co_name)
        f = self.fault
        if f is not None and self.fired is None and f.get("where") == "step" and f.get("index") == self.steps:
            self._deliver(f, "step", None, {})

    def _deliver(self, f, ekind, rel, ctx):
        kind = f["kind"]
        self.write_in_flight_at_fault = self.in_flight() or ekind in ("write", "close_w", "flush")
        self.fired = {"kind": kind, "event_kind": ekind, "path": rel, "n": len(self.events) - 1, "step": self.steps,
                      "write_in_flight": self.write_in_flight_at_fault}
        if kind == "KILL":
            if self.real_kill:
                import signal

                os.kill(_orig["getpid"](), signal.SIGKILL)
            if ekind == "write":
                self._write_prefix(ctx, f.get("cut", 0))
            self._freeze()
            raise Killed()
        if kind == "INTERRUPT":
            raise SimInterrupt("simulated Ctrl-C")
        if kind == "ALLOC":
            raise SimMemoryError("simulated allocation failure")
        if kind in ("IOERR", "CONVERT"):
            # an error fault means "this seam call fails": what fails depends on the seam
            kind = "CONVERT" if ekind.startswith("convert:") else "IOERR"
            self.fired["kind"] = kind
        if kind == "CONVERT":
            if ekind == "convert:black":
                import black

                class SimInvalidInput(black.InvalidInput, SimFault):
                    pass

                raise SimInvalidInput("simulated: formatter rejected the source")
            raise SimConvertError("simulated: conversion failed")
        if kind == "IOERR":
            en = ERRNOS.get(f.get("errno", "EIO"), _errno.EIO)
            if ekind == "write":
                self._write_prefix(ctx, f.get("cut", 0))
            elif ekind in ("close_w", "flush"):
                fobj = ctx.get("file")
                if fobj is not None:
                    fobj._pending = []  # what was still buffered is lost
                    if ekind == "close_w":
                        fobj._really_close()
            raise SimOSError(en, "simulated " + os.strerror(en), rel)
        raise HarnessError("unknown fault kind %r" % (kind,))

    def _write_prefix(self, ctx, cut):
        data = ctx.get("data")
        if data is None:
            return
        n = len(data)
        if isinstance(cut, float):
            c = int(n * cut)
        elif cut < 0:
            c = max(0, n + cut)
        else:
            c = min(cut, n)
        fobj = ctx.get("file")
        if fobj is not None:
            fobj._flush_pending()
            if c:
                fobj._real.write(data[:c])
            fobj._real.flush()
        elif "fd" in ctx and c:
            _orig["write"](ctx["fd"], data[:c])
        self.fired.setdefault("persisted_prefix", c)
        self.fired.setdefault("of", n)

    def _freeze(self):
        self.frozen = True
        for fobj in self.open_files:
            if not fobj._closed:
                fobj._pending = []
                fobj._really_close()
        for fd in list(self.fds):
            try:
                _orig["close"](fd)
            except OSError:
                pass
        self.fds.clear()


# ----------------------------------------------------------------------- SimFile
class SimFile(object):
    """Proxy over a real file inside the world.  Writes sit in a user-space buffer
    (flushed when it reaches sim.bufsize, on flush() and on close()) so that a KILL
    loses exactly what a real process would lose."""

    def __init__(self, sim, rel, real, mode):
        self._sim = sim
        self._rel = rel
        self._real = real
        self._mode = mode
        self._writing = any(c in mode for c in "wax+")
        self._pending = []
        self._pending_len = 0
        self._closed = False
        sim.open_files.append(self)

    # context manager
    def __enter__(self):
        if self._sim.frozen:
            raise Killed()
        return self

    def __exit__(self, *a):
        self.close()
        return False

    def __iter__(self):
        return self

    def __next__(self):
        line = self.readline()
        if not line:
            raise StopIteration
        return line

    # reading
    def read(self, *a):
        self._sim.event("read", self._rel, None, {"file": self})
        self._flush_pending()
        return self._real.read(*a)

    def readline(self, *a):
        if self._sim.frozen:
            raise Killed()
        return self._real.readline(*a)

    def readlines(self, *a):
        self._sim.event("read", self._rel, None, {"file": self})
        return self._real.readlines(*a)

    # writing
    def write(self, data):
        self._sim.event("write", self._rel, {"len": len(data)}, {"file": self, "data": data})
        if self._sim.real_kill:
            return self._real.write(data)  # the interpreter's own buffering decides what a real kill loses
        self._pending.append(data)
        self._pending_len += len(data)
        if self._pending_len >= self._sim.bufsize:
            self._flush_pending()
        return len(data)

    def writelines(self, lines):
        for line in lines:
            self.write(line)

    def _flush_pending(self):
        if self._pending:
            for chunk in self._pending:
                self._real.write(chunk)
            self._pending = []
            self._pending_len = 0
        if not self._real.closed:
            self._real.flush()

    def flush(self):
        if self._writing:
            self._sim.event("flush", self._rel, None, {"file": self})
        elif self._sim.frozen:
            raise Killed()
        self._flush_pending()

    def _really_close(self):
        self._closed = True
        try:
            self._real.close()
        except OSError:
            pass

    def close(self):
        if self._closed:
            if self._sim.frozen:
                raise Killed()
            return
        self._sim.event("close_w" if self._writing else "close_r", self._rel, None, {"file": self})
        self._flush_pending()
        self._really_close()

    def truncate(self, *a):
        self._sim.event("truncate", self._rel, None, {"file": self})
        self._flush_pending()
        return self._real.truncate(*a)

    def seek(self, *a):
        if self._sim.frozen:
            raise Killed()
        self._flush_pending()
        return self._real.seek(*a)

    def tell(self):
        self._flush_pending()
        return self._real.tell()

    @property
    def closed(self):
        return self._closed

    @property
    def name(self):
        return self._real.name

    @property
    def mode(self):
        return self._real.mode

    def __getattr__(self, item):
        return getattr(self._real, item)

    def __del__(self):
        try:
            if not self._closed:
                self._really_close()
        except Exception:
            pass


# ---------------------------------------------------------------------- wrappers
def _mode_kind(mode):
    if "a" in mode:
        return "open_a"
    if any(c in mode for c in "wx+"):
        return "open_w"
    return "open_r"


def _make_open(orig):
    def sim_open(file, mode="r", *args, **kwargs):
        sim = _ACTIVE
        if sim is None:
            return orig(file, mode, *args, **kwargs)
        if isinstance(file, int):
            if file in sim.fds:
                if sim.frozen:
                    raise Killed()
                rel, _w = sim.fds.pop(file)
                real = orig(file, mode, *args, **kwargs)
                return SimFile(sim, rel, real, mode)
            return orig(file, mode, *args, **kwargs)
        if not sim.inside(file):
            return orig(file, mode, *args, **kwargs)
        rel = sim.rel(file)
        kind = _mode_kind(mode)
        existed = os.path.exists(_fs(file))
        sim.event(kind, rel, {"mode": mode, "existed": existed}, {})
        real = orig(file, mode, *args, **kwargs)
        if kind != "open_r" and not existed:
            sim.created.add(rel)
        return SimFile(sim, rel, real, mode)

    sim_open.__name__ = "open"
    return sim_open


def _os_open(path, flags, mode=0o777, *, dir_fd=None):
    sim = _ACTIVE
    if sim is None or dir_fd is not None or not sim.inside(path):
        if dir_fd is not None:
            return _orig["open"](path, flags, mode, dir_fd=dir_fd)
        return _orig["open"](path, flags, mode)
    rel = sim.rel(path)
    writing = bool(flags & (os.O_WRONLY | os.O_RDWR))
    existed = os.path.exists(_fs(path))
    sim.event("os_open_w" if writing else "os_open_r", rel, {"trunc": bool(flags & os.O_TRUNC), "creat": bool(flags & os.O_CREAT), "existed": existed}, {})
    fd = _orig["open"](path, flags, mode)
    if writing and not existed:
        sim.created.add(rel)
    sim.fds[fd] = (rel, writing)
    return fd


def _os_write(fd, data):
    sim = _ACTIVE
    if sim is not None and (fd in sim.fds or sim.frozen and fd > 2):
        rel = sim.fds.get(fd, ("?", True))[0]
        sim.event("write", rel, {"len": len(data)}, {"fd": fd, "data": data})
    return _orig["write"](fd, data)


def _os_close(fd):
    sim = _ACTIVE
    if sim is not None and fd in sim.fds:
        rel, writing = sim.fds[fd]
        sim.event("close_w" if writing else "close_r", rel, None, {})
        del sim.fds[fd]
    return _orig["close"](fd)


def _make_fd_func(name):
    orig = _orig[name]

    def f(fd, *a, **k):
        sim = _ACTIVE
        if sim is not None:
            if isinstance(fd, int) and fd in sim.fds:
                sim.event(name.replace("fdatasync", "fsync").replace("ftruncate", "truncate"), sim.fds[fd][0], None, {})
            elif sim.frozen:
                raise Killed()
        return orig(fd, *a, **k)

    f.__name__ = name
    return f


def _make_path1(name):
    orig = _orig[name]

    def f(path, *a, **k):
        sim = _ACTIVE
        if sim is not None and not isinstance(path, int) and "dir_fd" not in k and sim.inside(path):
            ek = {"unlink": "remove"}.get(name, name)
            sim.event(ek, sim.rel(path), None, {})
        return orig(path, *a, **k)

    f.__name__ = name
    return f


def _make_path2(name):
    orig = _orig[name]

    def f(src, dst, *a, **k):
        sim = _ACTIVE
        if sim is not None and not k and (sim.inside(src) or sim.inside(dst)):
            rs = sim.rel(src) if sim.inside(src) else "<outside>"
            rd = sim.rel(dst) if sim.inside(dst) else "<outside>"
            existed = os.path.lexists(_fs(dst))
            sim.event(name, rd, {"src": rs}, {})
            r = orig(src, dst, *a, **k)
            if not existed and rd != "<outside>":
                sim.created.add(rd)
            if name in ("replace", "rename"):
                sim.created.discard(rs)
            return r
        return orig(src, dst, *a, **k)

    f.__name__ = name
    return f


SIM_PID = 4242


def _getpid():
    # process identity is a nondeterminism source (temp-file names): a simulated process has a fixed pid
    return SIM_PID if _ACTIVE is not None else _orig["getpid"]()


def install():
    """Install the dispatching wrappers process-wide (idempotent)."""
    global _installed
    if _installed:
        return
    _installed = True
    _orig["getpid"] = os.getpid
    os.getpid = _getpid
    _orig["open"] = os.open
    _orig["write"] = os.write
    _orig["close"] = os.close
    for n in _OS_PATH_FUNCS_1 + _OS_PATH_FUNCS_2 + _OS_FD_FUNCS:
        _orig[n] = getattr(os, n)
    w = _make_open(_orig_open)
    builtins.open = w
    io.open = w
    _io.open = w
    os.open = _os_open
    os.write = _os_write
    os.close = _os_close
    for n in _OS_PATH_FUNCS_1:
        setattr(os, n, _make_path1(n))
    for n in _OS_PATH_FUNCS_2:
        setattr(os, n, _make_path2(n))
    for n in _OS_FD_FUNCS:
        setattr(os, n, _make_fd_func(n))


def install_step_seam(pkg_dir):
    """sys.monitoring PY_START events of code objects under doctrans/ (tests excluded)."""
    global _pkg_dir
    if _pkg_dir is not None:
        return
    _pkg_dir = pkg_dir.rstrip(os.sep) + os.sep
    mon = sys.monitoring
    mon.use_tool_id(_TOOL, "dtsim")

    def cb(code, offset):
        if not code.co_filename.startswith(_pkg_dir):
            return mon.DISABLE
        sim = _ACTIVE
        if sim is not None:
            sim.step(code)

    mon.register_callback(_TOOL, mon.events.PY_START, cb)
    mon.set_events(_TOOL, mon.events.PY_START)


def wrap_conversions(ns):
    """Named conversion events around the formatter and the unparser used by emit.file."""
    emit = ns.emit
    if getattr(emit, "_dtsim_wrapped", False):
        return
    emit._dtsim_wrapped = True
    for attr, ek in (("format_str", "convert:black"), ("to_code", "convert:to_code")):
        if hasattr(emit, attr):
            orig = getattr(emit, attr)

            def make(orig, ek):
                def wrapped(*a, **k):
                    sim = _ACTIVE
                    if sim is not None:
                        sim.event(ek, None, None, {})
                    return orig(*a, **k)

                wrapped.__name__ = getattr(orig, "__name__", attr)
                wrapped.__wrapped__ = orig
                return wrapped

            setattr(emit, attr, make(orig, ek))


# ------------------------------------------------------------- simulated process
def _site(tb, pkg_dir):
    """innermost frame inside doctrans: 'module:function'"""
    site = None
    for fr in traceback.extract_tb(tb):
        if fr.filename.startswith(pkg_dir):
            site = "%s:%s" % (os.path.splitext(os.path.basename(fr.filename))[0], fr.name)
    return site


def reset_process_state(ns, world_root):
    """Forget what a *new* OS process would not have inherited."""
    for name, mod in list(sys.modules.items()):
        f = getattr(mod, "__file__", None)
        if f and isinstance(f, str) and f.startswith(world_root + os.sep):
            del sys.modules[name]
    linecache.clearcache()
    g = ns.gen.__dict__
    for k in list(g):
        if k not in ns.gen_globals:
            del g[k]
    import importlib

    importlib.invalidate_caches()
    sys.path[:] = [p for p in sys.path if not (isinstance(p, str) and p.startswith(world_root))]


def run_process(ns, sim, fn, cwd=None, home=None, extra_path=None):
    """Run `fn()` as one simulated process.  Returns an outcome dict."""
    global _ACTIVE
    out, err = io.StringIO(), io.StringIO()
    old_cwd = os.getcwd()
    old_home = os.environ.get("HOME")
    outcome = {"status": "ok", "ret": None}
    if extra_path:
        sys.path.insert(0, extra_path)
    try:
        if cwd:
            os.chdir(cwd)
        if home:
            os.environ["HOME"] = home
        _ACTIVE = sim
        with contextlib.redirect_stdout(out), contextlib.redirect_stderr(err):
            try:
                outcome["ret"] = fn()
            except SystemExit as e:
                outcome.update(status="exit", code=e.code if isinstance(e.code, int) else (0 if e.code is None else 1))
            except Killed:
                outcome.update(status="killed")
            except BaseException as e:
                outcome.update(
                    status="exc",
                    exc=type(e).__name__,
                    injected=isinstance(e, SimFault),
                    msg=str(e)[:300].replace(sim.root, "<W>"),
                    site=_site(e.__traceback__, ns.pkg_dir + os.sep),
                )
    finally:
        _ACTIVE = None
        if sim._boundary and not sim.frozen:
            sim.note_versions()
        # a process that ends (however it ends) has its descriptors closed by the OS;
        # data still in user-space buffers is written by interpreter shutdown only if it was not killed
        for fobj in sim.open_files:
            if not fobj._closed:
                if not sim.frozen and outcome["status"] != "killed":
                    try:
                        fobj._flush_pending()
                    except Exception:
                        pass
                fobj._really_close()
        for fd in list(sim.fds):
            try:
                _orig["close"](fd)
            except OSError:
                pass
        sim.fds.clear()
        os.chdir(old_cwd)
        if home:
            if old_home is None:
                os.environ.pop("HOME", None)
            else:
                os.environ["HOME"] = old_home
        reset_process_state(ns, sim.root)
    outcome["stdout"] = out.getvalue().replace(sim.root, "<W>")
    outcome["stderr"] = err.getvalue().replace(sim.root, "<W>")[-600:]
    outcome["steps"] = sim.steps
    outcome["nevents"] = len(sim.events)
    outcome["fired"] = sim.fired
    return outcome


# ------------------------------------------------------------------ process state
class ProcState(object):
    """Module-level state of the doctrans package (global containers, attributes kept on function objects,
    functools caches).  A *new* OS process starts from the import-time baseline; within one process the state
    carries over from one API call to the next.  The simulator needs both: `restore_baseline()` models a fresh
    process (every CLI invocation, the process after a kill, the start of every scenario)."""

    CONTAINERS = (dict, list, set)

    def __init__(self, pkg_prefix="doctrans"):
        import copy

        self.mods = {}
        for name, mod in sorted(sys.modules.items()):
            if mod is None or not (name == pkg_prefix or name.startswith(pkg_prefix + ".")) or ".tests" in name:
                continue
            bindings = dict(mod.__dict__)
            contents, fattrs, caches = {}, {}, []
            self.defaults = getattr(self, "defaults", [])
            for k, v in bindings.items():
                # mutable default arguments of functions defined here (`def f(x, cache={})`) are process state too
                if callable(v) and getattr(v, "__module__", None) == name:
                    for dv in list(getattr(v, "__defaults__", None) or ()) + list((getattr(v, "__kwdefaults__", None) or {}).values()):
                        if isinstance(dv, self.CONTAINERS):
                            try:
                                self.defaults.append((dv, copy.deepcopy(dv)))
                            except Exception:
                                pass
                if k.startswith("__"):
                    continue
                if isinstance(v, self.CONTAINERS) and not isinstance(v, type(os.environ)):
                    try:
                        contents[k] = copy.deepcopy(v)
                    except Exception:
                        pass
                elif callable(v) and getattr(v, "__module__", None) == name:
                    if hasattr(v, "cache_clear"):
                        caches.append(k)
                    d = getattr(v, "__dict__", None)
                    if isinstance(d, dict):
                        fattrs[k] = dict(d)
            self.mods[name] = (mod, bindings, contents, fattrs, caches)

    def restore_baseline(self):
        import copy

        for name, (mod, bindings, contents, fattrs, caches) in self.mods.items():
            md = mod.__dict__
            for k in list(md):
                if k not in bindings:
                    v = md[k]
                    del md[k]
            for k, v in bindings.items():
                if md.get(k, None) is not v:
                    md[k] = v
            for k, v in contents.items():
                cur = md[k]
                try:
                    if isinstance(cur, dict):
                        if cur != v or list(cur) != list(v):
                            cur.clear()
                            cur.update(copy.deepcopy(v))
                    elif isinstance(cur, list):
                        if cur != v:
                            cur[:] = copy.deepcopy(v)
                    elif isinstance(cur, set):
                        if cur != v:
                            cur.clear()
                            cur.update(v)
                except Exception:
                    pass
            for k, d in fattrs.items():
                f = md[k]
                fd = getattr(f, "__dict__", None)
                if isinstance(fd, dict) and fd != d:
                    for kk in list(fd):
                        if kk not in d and kk != "__wrapped__":
                            try:
                                del fd[kk]
                            except Exception:
                                pass
                    for kk, vv in d.items():
                        if fd.get(kk, None) is not vv:
                            try:
                                fd[kk] = vv
                            except Exception:
                                pass
            for k in caches:
                try:
                    md[k].cache_clear()
                except Exception:
                    pass
        for obj, orig in getattr(self, "defaults", []):
            try:
                if obj != orig:
                    if isinstance(obj, dict):
                        obj.clear()
                        obj.update(copy.deepcopy(orig))
                    elif isinstance(obj, list):
                        obj[:] = copy.deepcopy(orig)
                    else:
                        obj.clear()
                        obj.update(orig)
            except Exception:
                pass
        # caches created *after* import (a change under test may add new lru_cache-decorated functions: they are part
        # of `bindings` because the baseline is captured after import; functions defined later are dropped above)


def _procstate_dirty(self):
    """Does anything in the package's module-level state differ from the import-time baseline?"""
    out = []
    for name, (mod, bindings, contents, fattrs, caches) in self.mods.items():
        md = mod.__dict__
        for k, v in contents.items():
            try:
                if md.get(k) != v:
                    out.append("%s.%s" % (name, k))
            except Exception:
                pass
        for k in caches:
            try:
                if md[k].cache_info().currsize:
                    out.append("%s.%s (cache)" % (name, k))
            except Exception:
                pass
        for k, d in fattrs.items():
            fd = getattr(md.get(k), "__dict__", None)
            if isinstance(fd, dict) and {a: b for a, b in fd.items() if a != "__wrapped__"} != {a: b for a, b in d.items() if a != "__wrapped__"}:
                out.append("%s.%s (function attributes)" % (name, k))
        for k in md:
            if k not in bindings and not k.startswith("__"):  # (__warningregistry__ is interpreter bookkeeping)
                out.append("%s.%s (new binding)" % (name, k))
    for obj, orig in getattr(self, "defaults", []):
        try:
            if obj != orig:
                out.append("<mutable default argument>")
        except Exception:
            pass
    return out


ProcState.dirty = _procstate_dirty


class SimResult(object):
    """What the parent keeps of a Sim that ran in a forked child."""

    def __init__(self, sim):
        self.events = sim.events
        self.steps = sim.steps
        self.step_at_event = sim.step_at_event
        self.fired = sim.fired
        self.fault = sim.fault
        self.created = set(sim.created)
        self.touched = set(sim.touched)
        self.root = sim.root
        # only files written in more than one cycle have intermediate complete states worth knowing
        self.versions = {k: v[:-1] for k, v in sim.versions.items() if len(v) > 1}


def run_forked(fn):
    """Run fn() in a forked child process and return its (picklable) result.  The child is a genuine separate OS
    process: nothing it does to interpreter state reaches the parent; what it does to the world (the tmpfs
    directory) is, as for any process, durable."""
    import pickle

    r, w = os.pipe()
    pid = os.fork()
    if pid == 0:
        code = 0
        try:
            _orig.get("close", os.close)(r)
            try:
                payload = pickle.dumps(("ok", fn()))
            except BaseException as e:  # a harness error inside the child
                payload = pickle.dumps(("err", "%s: %s\n%s" % (type(e).__name__, e, traceback.format_exc()[-2000:])))
            wf = _orig_open(w, "wb")
            wf.write(payload)
            wf.close()
        except BaseException:
            code = 3
        finally:
            os._exit(code)
    _orig.get("close", os.close)(w)
    rf = _orig_open(r, "rb")
    data = rf.read()
    rf.close()
    _, status = os.waitpid(pid, 0)
    if not data:
        raise HarnessError("forked simulated process died without a result (wait status %s)" % status)
    kind, val = pickle.loads(data)
    if kind == "err":
        raise HarnessError("inside forked simulated process: %s" % val)
    return val
