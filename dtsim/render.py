"""Interface descriptions ("desc") of the harness and a small renderer that writes
them as *hand-written style* Python source (class / function / method / argparse
function), independent of doctrans' own emitters.

desc = {"doc": str,
        "params": [{"name": str, "typ": str|None, "doc": str|None, "default": D}],
        "returns": None | {"typ": str|None, "doc": str|None, "default": D},
        "kwargs": None | str}
D = None (absent) | {"v": <python literal>} | {"code": "<expr>"}
"""
import os

WORDS = ["alpha", "batch", "count", "depth", "epochs", "factor", "gamma", "height", "index", "jitter", "kernel",
         "limit", "momentum", "name", "offset", "path", "quota", "rate", "seed", "timeout", "units", "verbose",
         "width", "xscale", "yscale", "zoom"]
NOUNS = ["model", "dataset", "optimizer", "layer", "callback", "metric", "loss", "tensor", "graph", "session"]
VERBS = ["Train", "Load", "Build", "Fit", "Evaluate", "Compile", "Fetch", "Render", "Sample", "Index"]
PROSE = ["number of {n} items to use", "name of the {n}", "whether to shuffle the {n}", "scale applied to every {n}",
         "directory holding the {n}", "size of one {n}", "how the {n} is initialised", "upper bound on the {n}",
         "the {n} to start from", "weight given to the {n}"]
SCALARS = ["str", "int", "float", "bool"]


SPICY_P = float(os.environ.get("DTSIM_SPICY_P", "0.1"))
RETDOC_P = float(os.environ.get("DTSIM_RETDOC_P", "0.08"))


def gen_default(ch, typ, label):
    """A default literal consistent with `typ` (conservative profile)."""
    base = typ
    optional = False
    if typ and typ.startswith("Optional["):
        base = typ[len("Optional["):-1]
        optional = True
    if optional and ch.chance(label + ".none", 0.4):
        return {"v": None}
    spicy = ch.chance(label + ".spicy", SPICY_P)
    if spicy and base == "int":
        return {"v": ch.choice(label + ".sint", [10 ** 12, -(2 ** 31), 0o17, 1_000])}
    if spicy and base == "float":
        return {"v": ch.choice(label + ".sfloat", [1e-09, 1e+20, -0.0, 3.0])}
    if spicy and base == "str":
        return {"v": ch.choice(label + ".sstr", ["it's", 'say "hi"', "a\\b", "50%", "{x}", "a:b", "x=1, y=2", "#tag", "", " padded ", "tab\there", "caf\u00e9",
                                                   # quote characters at the ends: the same one, two different ones
                                                   "'\"", "'%s\"", '"quoted"', "--name=\"x\"", "\"'", "\"%d'", "'\"", "'%s\""])}
    if base == "int":
        return {"v": ch.choice(label + ".int", [0, 1, 2, 3, 5, 10, 32, 100, -1, -7])}
    if base == "float":
        return {"v": ch.choice(label + ".float", [0.0, 0.5, 1.5, 0.001, 2.25, -0.5])}
    if base == "bool":
        return {"v": ch.choice(label + ".bool", [True, False])}
    if base == "str":
        return {"v": ch.choice(label + ".str", ["mnist", "adam", "relu", "~/data", "np", "tf", "a b", "x-1"])}
    if base and base.startswith("Literal["):
        opts = eval(base[len("Literal"):])  # harness-generated text
        return {"v": opts[0] if ch.chance(label + ".lit0", 0.7) else opts[-1]}
    return {"v": None}


def gen_type(ch, label, profile):
    pool = [("str", 3), ("int", 3), ("float", 2), ("bool", 2), ("Optional[str]", 1), ("Optional[int]", 1),
            ("Optional[float]", 0.5), ("Optional[bool]", 0.5), ("Literal['np', 'tf']", 1), ("Literal['a', 'b', 'c']", 0.5)]
    if profile == "wide":
        pool += [("List[str]", 1), ("List[int]", 0.5), ("Union[int, str]", 0.5), ("Tuple[int, int]", 0.3),
                 ("Optional[List[str]]", 0.5), ("np.ndarray", 0.3)]
    return ch.weighted(label, pool)


def gen_desc(ch, profile="conservative", min_params=1, max_params=5, label="desc", retdoc_p=None):
    n = ch.int(label + ".n", min_params, max_params)
    names = ch.sample(label + ".names", WORDS, n)
    if n >= 2 and ch.chance(label + ".related", 0.2):
        # names that contain one another (decay / lr_decay, rate / max_rate, x / x_scale): neighbours in the interface
        i = ch.int(label + ".rel.i", 0, n - 2)
        how = ch.choice(label + ".rel.how", ["max_%s", "lr_%s", "%s_scale", "%s2"])
        names[i + 1] = how % names[i]
        if ch.chance(label + ".rel.swap", 0.3):
            names[i], names[i + 1] = names[i + 1], names[i]
    params = []
    seen_default = False
    for i, name in enumerate(names):
        typ = gen_type(ch, "%s.p%d.typ" % (label, i), profile)
        # python requires defaults to be trailing for positional rendering; the generator keeps
        # "no default" parameters before defaulted ones so that every kind can be rendered.
        has_default = seen_default or ch.chance("%s.p%d.hasdef" % (label, i), 0.6)
        d = None
        if has_default:
            d = gen_default(ch, typ, "%s.p%d.def" % (label, i))
            seen_default = True
        doc = ch.choice("%s.p%d.doc" % (label, i), PROSE).format(n=ch.choice("%s.p%d.noun" % (label, i), NOUNS))
        params.append({"name": name, "typ": typ, "doc": doc, "default": d})
    returns = None
    if ch.chance(label + ".ret", 0.06):
        rtyp = ch.choice(label + ".ret.typ", ["int", "str", "float", "bool"])
        # steering (DESIGN §7.2): a return entry without default expression trips a known emitter defect (F04)
        rdef = gen_default(ch, rtyp, label + ".ret.def") if ch.chance(label + ".ret.hasdef", 0.9) else None
        returns = {"typ": rtyp, "doc": "the resulting " + ch.choice(label + ".ret.noun", NOUNS), "default": rdef}
    if returns is None and ch.chance(label + ".retdoc", RETDOC_P if retdoc_p is None else retdoc_p):
        # a return value whose default only the docstring states ("..., defaults to None"); the body need not end with `return`
        returns = {"typ": ch.choice(label + ".retdoc.typ", ["Optional[int]", "Optional[str]"]), "doc": "the outcome of the " + ch.choice(label + ".retdoc.noun", NOUNS) + ", defaults to None", "default": None}
    doc = "%s the %s." % (ch.choice(label + ".verb", VERBS), ch.choice(label + ".noun", NOUNS))
    if ch.chance(label + ".doc2", 0.3):
        doc += " Uses the %s." % ch.choice(label + ".noun2", NOUNS)
    return {"doc": doc, "params": params, "returns": returns, "kwargs": None}


def edit_desc(ch, desc, label="edit"):
    """A new version of `desc` (the user edited the truth)."""
    import copy

    d = copy.deepcopy(desc)
    ops = ["add", "doc", "summary"]
    if d["params"]:
        ops += ["default", "rename", "typ"]
    if len(d["params"]) > 1:
        ops += ["remove", "swap"]
    op = ch.choice(label + ".op", ops)
    used = {p["name"] for p in d["params"]}
    if op == "add":
        name = ch.choice(label + ".name", [w for w in WORDS if w not in used])
        typ = gen_type(ch, label + ".typ", "conservative")
        d["params"].append({"name": name, "typ": typ, "doc": "the added " + name, "default": gen_default(ch, typ, label + ".def")})
    elif op == "remove":
        del d["params"][ch.int(label + ".idx", 0, len(d["params"]) - 1)]
    elif op == "rename":
        p = d["params"][ch.int(label + ".idx", 0, len(d["params"]) - 1)]
        p["name"] = ch.choice(label + ".name", [w for w in WORDS if w not in used])
    elif op == "default":
        idxs = [i for i, p in enumerate(d["params"]) if p["default"] is not None] or [len(d["params"]) - 1]
        p = d["params"][ch.choice(label + ".idx", idxs)]
        old = p["default"]
        for k in range(6):
            p["default"] = gen_default(ch, p["typ"], label + ".def%d" % k)
            if p["default"] != old and p["default"] != {"v": None}:
                break
    elif op == "typ":
        i = len(d["params"]) - 1
        p = d["params"][i]
        p["typ"] = gen_type(ch, label + ".typ", "conservative")
        if p["default"] is not None:
            p["default"] = gen_default(ch, p["typ"], label + ".def")
    elif op == "swap":
        i = ch.int(label + ".idx", 0, len(d["params"]) - 2)
        a, b = d["params"][i], d["params"][i + 1]
        if (a["default"] is None) == (b["default"] is None):
            d["params"][i], d["params"][i + 1] = b, a
        else:
            a["doc"] = a["doc"] + " (revised)"
    elif op == "doc":
        if d["params"]:
            p = d["params"][ch.int(label + ".idx", 0, len(d["params"]) - 1)]
            p["doc"] = "the revised " + p["name"]
        else:
            d["doc"] = "Revised. " + d["doc"]
    elif op == "summary":
        d["doc"] = ch.choice(label + ".verb", VERBS) + " the revised " + ch.choice(label + ".noun", NOUNS) + "."
    return d


# ------------------------------------------------------------------ rendering
def lit(d):
    if d is None:
        return None
    if "code" in d:
        return d["code"]
    return repr(d["v"])


def _doc_default(p, emit_default_doc):
    doc = p.get("doc") or ""
    if emit_default_doc and p.get("default") is not None:
        v = p["default"]
        text = v["code"] if "code" in v else (('"%s"' % v["v"]) if isinstance(v["v"], str) else repr(v["v"]))
        doc = (doc + " " if doc else "") + "Defaults to " + text
    return doc


def render_class(desc, name="Config", default_doc=False, indent="", quote_code=False, plain=False):
    """quote_code: write code defaults the way doctrans itself does in classes: as a string of back-tick quoted source"""
    lines = ['class %s(object):' % name, '    """', "    " + desc["doc"], ""]
    for p in desc["params"]:
        lines.append("    :cvar %s: %s" % (p["name"], _doc_default(p, default_doc)))
    r = desc.get("returns")
    if r:
        lines.append("    :cvar return_type: %s" % (r.get("doc") or ""))
    lines.append('    """')
    lines.append("")
    for p in desc["params"]:
        typ = p["typ"] or "object"
        if p["default"] is None:
            lines.append("    %s: %s" % (p["name"], typ))
        elif plain and typ in ("int", "float", "bool", "str") and p["default"].get("v") is not None:
            # an attribute written without annotation (`epochs = 5`): its type is what the value says
            lines.append("    %s = %s" % (p["name"], lit(p["default"])))
        else:
            lines.append("    %s: %s = %s" % (p["name"], typ, lit(p["default"])))
    if r:
        if r.get("default") is not None:
            rl = lit(r["default"])
            if quote_code and "code" in r["default"]:
                rl = '"```%s```"' % r["default"]["code"]
            lines.append("    return_type: %s = %s" % (r["typ"] or "object", rl))
        else:
            lines.append("    return_type: %s" % (r["typ"] or "object"))
    if not desc["params"] and not r:
        lines.append("    pass")
    return "\n".join(indent + ln if ln else ln for ln in lines) + "\n"


def render_function(desc, name="train", ftype="static", inline_types=True, kwonly=False, body=None, indent="",
                    documented=None, style="rest", extra_documented=()):
    """documented: None = all parameters, else the list of names (in that order) the docstring documents."""
    args = []
    if ftype in ("self", "cls"):
        args.append(ftype)
    pos = []
    for p in desc["params"]:
        s = p["name"]
        if inline_types and p["typ"]:
            s += ": " + p["typ"]
        if p["default"] is not None:
            s += (" = " if inline_types and p["typ"] else "=") + lit(p["default"])
        pos.append(s)
    if kwonly and pos:
        args.append("*")
    args += pos
    if desc.get("kwargs"):
        args.append("**" + desc["kwargs"])
    r = desc.get("returns")
    ret_ann = ""
    if r and r.get("typ") and inline_types:
        ret_ann = " -> " + r["typ"]
    ind = indent + "    "
    lines = [indent + "def %s(%s)%s:" % (name, ", ".join(args), ret_ann), ind + '"""', ind + desc["doc"], ""]
    byname = {p["name"]: p for p in desc["params"]}
    doc_names = [p["name"] for p in desc["params"]] if documented is None else list(documented)
    stale = [{"name": n, "typ": "int", "doc": "no longer a parameter (%s)" % n, "default": None} for n in extra_documented]
    lines += _doc_lines(style, [byname[n] for n in doc_names] + stale, r, inline_types, ind)
    lines.append(ind + '"""')
    for stmt in (body or []):
        lines.append(ind + stmt)
    if r and r.get("default") is not None:
        lines.append(ind + "return " + lit(r["default"]))
    elif not body:
        lines.append(ind + "pass")
    return "\n".join(lines) + "\n"


def _doc_lines(style, params, r, inline_types, ind):
    lines = []
    if style in ("rest", "rest_compact"):
        # rest_compact: no blank line between the fields (the layout of most hand-written ReST docstrings)
        gap = [""] if style == "rest" else []
        for p in params:
            lines.append(ind + ":param %s: %s" % (p["name"], p.get("doc") or ""))
            if not inline_types and p["typ"]:
                lines.append(ind + ":type %s: ```%s```" % (p["name"], p["typ"]))
            lines += gap
        if r:
            lines.append(ind + ":returns: %s" % (r.get("doc") or ""))
            if not inline_types and r.get("typ"):
                lines.append(ind + ":rtype: ```%s```" % r["typ"])
            lines += gap
        if lines and lines[-1] == "":
            lines.pop()
    elif style in ("google", "google_hanging"):
        if params:
            lines.append(ind + "Args:")
            for i, p in enumerate(params):
                t = " (%s)" % p["typ"] if (not inline_types and p["typ"]) else ""
                if style == "google_hanging" and i == 0:
                    # the style guide's second layout: the description starts on the next line, indented further
                    lines += [ind + "  %s%s:" % (p["name"], t), ind + "      %s" % (p.get("doc") or "")]
                else:
                    lines.append(ind + "  %s%s: %s" % (p["name"], t, p.get("doc") or ""))
            lines.append("")
        if r:
            lines.append(ind + "Returns:")
            lines.append(ind + "  %s: %s" % (r.get("typ") or "object", r.get("doc") or ""))
        if lines and lines[-1] == "":
            lines.pop()
    elif style == "numpydoc":
        if params:
            lines += [ind + "Parameters", ind + "----------"]
            for p in params:
                lines.append(ind + "%s : %s" % (p["name"], p["typ"] or "object"))
                lines.append(ind + "    %s" % (p.get("doc") or ""))
            lines.append("")
        if r:
            lines += [ind + "Returns", ind + "-------"]
            lines.append(ind + "%s" % (r.get("typ") or "object"))  # the unnamed form, which is also what doctrans itself emits
            lines.append(ind + "    %s" % (r.get("doc") or ""))
        if lines and lines[-1] == "":
            lines.pop()
    return lines


def render_method(desc, cls="C", name="train", siblings=(), **kw):
    """A class holding the method, optionally with sibling members before/after."""
    lines = ["class %s(object):" % cls, '    """ %s class """' % cls, ""]
    before = [s for s in siblings if s.get("where") == "before"]
    after = [s for s in siblings if s.get("where") != "before"]
    for s in before:
        lines += ["    " + ln if ln else ln for ln in s["src"].rstrip("\n").split("\n")] + [""]
    lines.append(render_function(desc, name=name, ftype="self", indent="    ", **kw).rstrip("\n"))
    for s in after:
        lines += [""] + ["    " + ln if ln else ln for ln in s["src"].rstrip("\n").split("\n")]
    return "\n".join(lines) + "\n"


def _argparse_kwargs(p):
    kws = []
    typ = p["typ"]
    base, optional = typ, False
    if typ and typ.startswith("Optional["):
        base, optional = typ[len("Optional["):-1], True
    if base and base.startswith("Literal["):
        inner = base[len("Literal["):-1]
        kws.append("choices=(%s%s)" % (inner, "" if "," in inner else ","))
    elif base in ("int", "float", "bool"):
        kws.append("type=%s" % base)
    elif base == "str" or base is None:
        pass
    elif base.isidentifier():
        kws.append("type=%s" % base)  # a converter named by the user (Path, Decimal, loads)
    else:
        kws.append("type=str")
    kws.append("help=%r" % (p.get("doc") or ""))
    if not optional:
        kws.append("required=True")
    if p["default"] is not None and lit(p["default"]) != "None":
        kws.append("default=%s" % lit(p["default"]))
    return kws


def render_argparse(desc, name="set_cli_args", indent="", docstring=True, description=True):
    ind = indent + "    "
    lines = [indent + "def %s(argument_parser):" % name, ind + '"""', ind + "Set CLI arguments", "",
             ind + ":param argument_parser: argument parser", ind + ":type argument_parser: ```ArgumentParser```", ""]
    r = desc.get("returns")
    if r and r.get("default") is not None:
        lines += [ind + ":returns: argument_parser, %s" % (r.get("doc") or ""),
                  ind + ":rtype: ```Tuple[ArgumentParser, %s]```" % (r.get("typ") or "object")]
    else:
        lines += [ind + ":returns: argument_parser", ind + ":rtype: ```ArgumentParser```"]
    lines.append(ind + '"""')
    if not docstring:
        lines = lines[:1]  # a hand-written set_cli_args often has no docstring at all
    if description:
        lines.append(ind + "argument_parser.description = %r" % desc["doc"])
    for p in desc["params"]:
        lines.append(ind + "argument_parser.add_argument(%s)" % ", ".join(["'--%s'" % p["name"]] + _argparse_kwargs(p)))
    if r and r.get("default") is not None:
        lines.append(ind + "return argument_parser, %s" % lit(r["default"]))
    else:
        lines.append(ind + "return argument_parser")
    return "\n".join(lines) + "\n"


# ------------------------------------------------------- unrelated statements
def unrelated_statements(ch, label, colliding, k, after_def=None, local_name=None):
    """k statements that have nothing to do with the named definition, some of them sharing
    parameter / method names with it (colliding = names of the target's parameters and function).
    after_def: name bound by the definition when these statements follow it (they may then *use* or re-bind that name)."""
    out = []
    kinds = ["import", "const", "helper", "helper_collide", "class_same_method", "nested_class", "assign_collide", "ann_const"]
    if after_def:
        kinds = kinds + ["rebind", "rebind_ann", "use_after"]
    kinds = kinds + ["async_local_class", "def_local_class"]
    # less common but perfectly legal module content
    kinds = kinds + ["type_checking_block", "conditional_def", "redefinition", "dunder_all", "unicode", "semicolons", "string_annotation",
                     "type_comment", "star_args", "posonly", "decorated_function", "lambda_default", "walrus_fstring", "main_guard", "try_import", "def_conditional_local_class", "except_fallback_class"]
    import sys as _sys

    if _sys.version_info[:2] >= (3, 12):
        kinds = kinds + ["generic_class", "generic_function", "decorated_class"]
    for i in range(k):
        kind = ch.choice("%s.u%d.kind" % (label, i), kinds)
        tag = "%s%d" % (label.replace(".", "_").replace("-", "_"), i)
        cname = colliding[ch.int("%s.u%d.c" % (label, i), 0, len(colliding) - 1)] if colliding else "value"
        if kind == "import":
            src = ch.choice("%s.u%d.imp" % (label, i), ["import os", "from typing import Optional", "import json as _json", "from collections import OrderedDict"])
        elif kind == "const":
            src = "LIMIT_%s = %d" % (tag.upper(), ch.int("%s.u%d.v" % (label, i), 0, 99))
        elif kind == "ann_const":
            src = "SCALE_%s: float = 1.5" % tag.upper()
        elif kind == "assign_collide":
            src = "%s_backup = %d" % (cname, ch.int("%s.u%d.v" % (label, i), 0, 9))
        elif kind == "rebind":
            src = "%s = register(%s)" % (after_def, after_def)  # e.g. a decorator applied by hand
        elif kind == "rebind_ann":
            src = "%s_alias: type = %s" % (after_def, after_def) if ch.chance("%s.u%d.al" % (label, i), 0.5) else "%s: object = %s" % (after_def, after_def)
        elif kind == "use_after":
            src = "INSTANCES_%s = [%s]" % (tag.upper(), after_def)
        elif kind == "generic_class":
            src = "class Box_%s[T]:\n    item: T\n\n    def get(self) -> T:\n        return self.item" % tag
        elif kind == "generic_function":
            src = "def first_%s[T](xs: list[T], *, fallback: T = None) -> T:\n    return xs[0] if xs else fallback" % tag
        elif kind == "decorated_class":
            src = "@register(name=%r, order=2)\nclass Plugin_%s(Base, metaclass=Meta):\n    __slots__ = ('a', 'b')\n\n    @property\n    def a2(self):\n        return self.a * 2" % (tag, tag)
        elif kind == "async_local_class":
            # a coroutine with a local class that carries the name of the synchronised definition
            tname = colliding[0] if colliding else "Config"
            src = ("async def fetch_%s(session):\n    class %s(object):\n        retries: int = 3\n\n    return await session.get(%s)"
                   % (tag, local_name or tname, local_name or tname))
        elif kind == "def_local_class":
            tname = colliding[0] if colliding else "Config"
            src = ("def build_%s(flag=True):\n    class %s(object):\n        enabled: bool = flag\n\n    return %s" % (tag, local_name or tname, local_name or tname))
        elif kind == "type_checking_block":
            src = "if TYPE_CHECKING:\n    from collections.abc import Sequence as Seq_%s\nelse:\n    Seq_%s = list" % (tag, tag)
        elif kind == "conditional_def":
            src = ("if sys.version_info >= (3, 8):\n    def compat_%s(%s=None):\n        return %s\nelse:\n    def compat_%s(%s=None):\n        return None"
                   % (tag, cname, cname, tag, cname))
        elif kind == "redefinition":
            src = "def twice_%s(x):\n    return x\n\n\ndef twice_%s(x, y=0):\n    return x + y" % (tag, tag)
        elif kind == "dunder_all":
            src = "__all__ = [%r, 'helper_%s']" % (colliding[0] if colliding else "Config", tag)
        elif kind == "unicode":
            src = "caf\u00e9_%s = 'na\u00efve \u2013 r\u00e9sum\u00e9 \u03b1\u03b2 \u4e2d\u6587'" % tag
        elif kind == "semicolons":
            src = "a_%s = 1; b_%s = a_%s + \\\n    2" % (tag, tag, tag)
        elif kind == "string_annotation":
            src = "def later_%s(x: 'Later_%s', *, %s: \"int\" = 0) -> 'Later_%s':\n    return x" % (tag, tag, cname, tag)
        elif kind == "type_comment":
            src = "items_%s = []  # type: List[int]" % tag
        elif kind == "star_args":
            src = "def spread_%s(first, *args, %s=None, **kwargs):\n    return (first, args, %s, kwargs)" % (tag, cname, cname)
        elif kind == "posonly":
            src = "def strict_%s(a, b=2, /, %s=3, *, flag=False):\n    return a + b" % (tag, cname)
        elif kind == "decorated_function":
            src = "@functools.lru_cache(maxsize=None)\n@staticmethod\ndef cached_%s(%s=1):\n    \"\"\"cached\"\"\"\n    return %s" % (tag, cname, cname)
        elif kind == "lambda_default":
            src = "def sorter_%s(key=lambda item: (item.%s, -item.rank), reverse=not True):\n    return sorted([], key=key, reverse=reverse)" % (tag, cname)
        elif kind == "walrus_fstring":
            src = "if (n_%s := len(sys.argv)) > 1:\n    banner_%s = f\"{n_%s!r:>4} args, {'%s'!s} last\"" % (tag, tag, tag, cname)
        elif kind == "def_conditional_local_class":
            # a plain function whose body defines, under a condition, a class that bears the name of the synchronised definition
            tname = local_name or (colliding[0] if colliding else "Config")
            src = ("def load_%s(legacy=False):\n    if legacy:\n        class %s(object):\n            old_style: int = 1\n\n        return %s\n    return None" % (tag, tname, tname))
        elif kind == "except_fallback_class":
            # the classic optional import with a fallback definition of the same name in the handler (no `as`)
            tname = local_name or (colliding[0] if colliding else "Config")
            src = "try:\n    from generated_%s import %s\nexcept ImportError:\n    class %s(object):\n        fallback: int = 1" % (tag, tname, tname)
        elif kind == "main_guard":
            src = "if __name__ == '__main__':\n    logging_%s = True" % tag
        elif kind == "try_import":
            src = "try:\n    import yaml as yaml_%s\nexcept ImportError:\n    yaml_%s = None\nfinally:\n    done_%s = True" % (tag, tag, tag)
        elif kind == "helper":
            src = "def helper_%s(x, y=2):\n    \"\"\"helper\"\"\"\n    return x + y" % tag
        elif kind == "helper_collide":
            src = "def helper_%s(%s, other=None):\n    return (%s, other)" % (tag, cname, cname)
        elif kind == "class_same_method":
            src = ("class Other_%s(object):\n    \"\"\"other\"\"\"\n\n    %s_attr: int = 1\n\n    def %s(self, %s=1):\n        return %s"
                   % (tag, cname, colliding[0] if colliding else "run", cname, cname))
        else:
            src = "class Outer_%s(object):\n    class Inner(object):\n        flag: bool = True\n\n    def get(self):\n        return self.Inner.flag" % tag
        out.append({"kind": kind, "src": src})
    return out


HEADERS = [None, None, None, None, None, None,
           "# -*- coding: utf-8 -*-\n",                                    # directly above the first statement
           "#!/usr/bin/env python\n# -*- coding: utf-8 -*-\n\n",           # the usual blank line below
           "# Copyright (c) the authors\n# Licensed under the MIT licence\n#\n\n"]


def assemble(before, definition, after, trailing_newline=True, module_doc=None, header=None):
    text = _assemble(before, definition, after, trailing_newline, module_doc)
    # leading comment lines (shebang, coding cookie, licence): part of the file's bytes, not of its syntax tree
    return (header + text) if header and text else text


def _assemble(before, definition, after, trailing_newline=True, module_doc=None):
    parts = []
    if module_doc:
        parts.append('"""%s"""' % module_doc)
    parts += [u["src"] for u in before]
    if definition is not None:
        parts.append(definition.rstrip("\n"))
    parts += [u["src"] for u in after]
    text = "\n\n\n".join(parts)
    if trailing_newline and text:
        text += "\n"
    return text
