"""Engine B - the replica simulator (DESIGN §4): C12, C07, C18.

A *replica* is a fresh interpreter started by the scheduler with a scheduler-chosen
PYTHONHASHSEED (and, for C18, DOCTRANS_LINE_LENGTH) that executes a *schedule* - a
permutation with repetition of a seeded corpus of conversion jobs - in one process and
reports a digest per (job, occurrence).  The oracle for C12 is replica agreement; C07 and
C18 evaluate their oracles inside every replica (i.e. for every hash seed / configuration).
"""
import ast
import hashlib
import json
import os
import re
import signal
import subprocess
import sys
import time

from dtsim import core, render
from dtsim.core import EXIT_HARNESS, EXIT_OK, EXIT_VIOLATION, Chooser, HarnessError

COMPACT_W = float(os.environ.get("DTSIM_COMPACT_W", "1"))
PRELUDE = "from typing import *\nimport typing\nimport os\nfrom pathlib import Path\nfrom decimal import Decimal\n"


# ------------------------------------------------------------------------------ corpus
def add_computed_default(ch, label, desc, p_=0.15):
    """A default that is computed, not a literal (a call, an attribute, arithmetic): Python evaluates it at definition time;
    a source-to-source tool can only carry the expression."""
    if not ch.chance(label + ".computed", p_):
        return
    cands = [p for p in desc["params"] if p["default"] is not None and not p.get("doc_announces_default")]
    if cands:
        p = ch.choice(label + ".computedwhich", cands)
        base = (p["typ"] or "").replace("Optional[", "").rstrip("]")
        p["default"] = {"code": ch.choice(label + ".computedexpr", {"int": ["os.cpu_count()", "2 ** 10", "len('abc')"], "str": ["os.getcwd()", "os.path.join('a', 'b')", "'x' * 3"],
                                                                   "float": ["1 / 3", "float('inf')"], "bool": ["not False", "bool(os.sep)"]}.get(base, ["os.environ.get('HOME')"]))}
        p["computed"] = True


def add_named_type(ch, label, desc, p_=0.12):
    """A required parameter whose type is a class named by a plain identifier (Path, Decimal): neither a scalar nor a typing
    construct.  The same few names recur across jobs, so that what one conversion does with such a type can meet another."""
    if desc["params"] and ch.chance(label + ".namedtype", p_):
        p = desc["params"][0]
        p["typ"] = ch.choice(label + ".namedtypev", ["Path", "Path", "Decimal"])
        p["default"] = None
        p.pop("computed", None)


def spice_names_and_prose(ch, label, desc):
    """Parameter names that are also words of the docstring grammar or of doctrans' own vocabulary, private names; prose that
    is longer than a line and quotes code (with blanks in it)."""
    if ch.chance(label + ".oddname", 0.08):
        p = ch.choice(label + ".oddwhich", desc["params"])
        taken = {q["name"] for q in desc["params"]}
        cands = [n for n in ("return_type", "returns", "param", "type", "default", "_private", "self_", "cvar", "kwargs_spec") if n not in taken]
        p["name"] = ch.choice(label + ".oddnamev", cands)
    if ch.chance(label + ".longdoc", 0.15):
        p = ch.choice(label + ".longwhich", desc["params"])
        span = ch.choice(label + ".span", ["```np.sum(data, axis=axis)```", "```(batch, height, width)```", "```x if x else None```"])
        p["doc"] = "%s; for every item of the input it is computed as %s and then scaled so that the total stays within the configured bounds of the session" % (p["doc"], span)


def gen_fn_job(ch, jid, label, allow_stale_docs=False):
    """A user-written function/method with a docstring documenting all / some / none of its parameters,
    in or out of signature order."""
    desc = render.gen_desc(ch, "conservative" if ch.chance(label + ".prof", 0.7) else "wide", 1, 6, label)
    spice_names_and_prose(ch, label, desc)
    add_named_type(ch, label, desc)
    if ch.chance(label + ".nosummary", 0.1):
        desc["doc"] = ""  # a docstring that opens with its first field / section header
    # python needs non-defaulted positionals first: gen_desc guarantees it
    names = [p["name"] for p in desc["params"]]
    mode = ch.weighted(label + ".docmode", [("all", 2), ("some", 5), ("none", 1.5), ("shuffled", 2)])
    if mode == "all":
        documented = list(names)
    elif mode == "none":
        documented = []
    elif mode == "some":
        documented = ch.subset(label + ".docsub", names, 0.5)
        if len(documented) == len(names) and names:
            documented = documented[:-1]
    else:
        documented = ch.shuffle(label + ".docshuf", names)
    if mode == "some" and ch.chance(label + ".someshuf", 0.4):
        documented = ch.shuffle(label + ".docshuf2", documented)
    style = ch.weighted(label + ".style", [("rest", 3), ("google", 1), ("numpydoc", 1), ("rest_compact", COMPACT_W), ("google_hanging", 0.5)])
    inline = ch.chance(label + ".inline", 0.6)
    kwonly = ch.chance(label + ".kwonly", 0.3)
    if kwonly and ch.chance(label + ".kwshuffle", 0.6):
        # keyword-only parameters may come in any order: a required one may follow a defaulted one
        desc["params"] = ch.shuffle(label + ".kworder", desc["params"])
        names = [p["name"] for p in desc["params"]]
        documented = [n for n in documented] if mode in ("shuffled",) else [n for n in names if n in documented]
    ftype = ch.weighted(label + ".ftype", [("static", 3), ("self", 1.5), ("cls", 0.5)])
    if ch.chance(label + ".kwargs", 0.15):
        desc["kwargs"] = "kwargs"
    desc["returns"] = None
    if ch.chance(label + ".announce", 0.35):
        # prose that announces a default in one of the four recognised phrasings - sometimes two of them in one description
        phrases = ["Defaults to %s", "defaults to %s", "Default value is %s", "Default: %s"]
        for i, p in enumerate(desc["params"]):
            if p["default"] is not None and p["default"].get("v") is not None and p["name"] in documented and ch.chance("%s.an%d" % (label, i), 0.5):
                val = p["default"]["v"]
                txt = ('"%s"' % val) if isinstance(val, str) else repr(val)
                if ch.chance("%s.fold%d" % (label, i), 0.3):
                    # letters whose case-folded form is longer than the letter (sharp s, dotted capital I, a ligature)
                    p["doc"] = ch.choice("%s.foldw%d" % (label, i), ["Gr\u00f6\u00dfe des Puffers", "Ma\u00dfstab, \u0130stanbul", "con\ufb01gured size"]) + ", " + p["doc"]
                p["doc"] = p["doc"] + ". " + ch.choice("%s.ph%d" % (label, i), phrases) % txt
                p["announces_same"] = True
                if ch.chance("%s.two%d" % (label, i), 0.5):
                    # a second, *different* phrasing announcing another value (which one counts must not depend on the process)
                    first = [ph for ph in phrases if (ph % txt) in p["doc"]][0]
                    other = ch.choice("%s.ph2%d" % (label, i), [ph for ph in phrases if ph.lower() != first.lower()])
                    alt = {"int": "7", "float": "0.75", "bool": "True", "str": '"other"'}.get(type(val).__name__, "7")
                    p["doc"] += ". In legacy mode " + other[0].lower() + other[1:] % alt
                    p["announces_same"] = False
                p["doc_announces_default"] = True
    add_computed_default(ch, label, desc)
    extra_documented = []
    if allow_stale_docs and ch.chance(label + ".stale", 0.2):
        # stale documentation: names the docstring still describes although the signature no longer has them
        # (or keys forwarded through **kwargs)
        pool = [w for w in render.WORDS if w not in names]
        extra_documented = ch.sample(label + ".stalenames", pool, ch.int(label + ".nstale", 2, 4))
    fname = ch.choice(label + ".fname", ["train", "run", "fit", "build"])
    src = render.render_function(desc, fname, ftype=ftype, inline_types=inline, kwonly=kwonly, documented=documented, style=style,
                                 body=["total = 0"] if ch.chance(label + ".body", 0.3) else None, extra_documented=extra_documented)
    truth = {"names": names + ([desc["kwargs"]] if desc.get("kwargs") else []),
             "documented": documented, "style": {"google_hanging": "google", "rest_compact": "rest"}.get(style, style), "layout": style, "inline": inline, "ftype": ftype, "kwonly": kwonly,
             "params": {p["name"]: {"typ": p["typ"], "doc": p["doc"], "default": p["default"], "announces": bool(p.get("doc_announces_default")),
                                     "announces_same": bool(p.get("announces_same")) and isinstance((p["default"] or {}).get("v"), (int, float)) and not isinstance((p["default"] or {}).get("v"), bool),
                                     "computed": bool(p.get("computed"))} for p in desc["params"]}}
    return {"id": jid, "kind": "parse_function", "src": src, "name": fname, "truth": truth,
            "inmem": ch.chance(label + ".inmem", 0.12)}


def gen_fn_twins(ch, jid0, label):
    """Two functions with the *same docstring text* and different signatures (other defaults, other annotations, inline):
    what one parse learns from the signature must not reach the other through anything keyed on the docstring."""
    desc = render.gen_desc(ch, "conservative", 2, 5, label)
    desc["returns"] = None
    for p in desc["params"]:
        if p["default"] is None:
            p["default"] = render.gen_default(ch, p["typ"], label + ".fill." + p["name"])
    names = [p["name"] for p in desc["params"]]
    documented = ch.subset(label + ".docsub", names, 0.7, at_least=1)
    style = ch.weighted(label + ".style", [("rest", 3), ("google", 1), ("numpydoc", 1)])
    jobs = []
    for k in range(2):
        d = {"doc": desc["doc"], "kwargs": None, "returns": None, "params": [dict(p) for p in desc["params"]]}
        if k == 1:
            for i, p in enumerate(d["params"]):
                # another type and another default in the signature; the prose stays what it was
                alt = {"int": "float", "float": "int", "str": "int", "bool": "int"}.get(p["typ"], "int")
                p["typ"] = alt
                p["default"] = render.gen_default(ch, alt, "%s.alt%d" % (label, i))
        fname = "train"
        src = render.render_function(d, fname, ftype="static", inline_types=True, kwonly=False, documented=documented, style="rest" if style == "rest" else style)
        truth = {"names": names, "documented": documented, "style": style, "inline": True, "ftype": "static", "kwonly": False,
                 "params": {p["name"]: {"typ": p["typ"], "doc": p["doc"], "default": p["default"], "announces": False, "computed": False} for p in d["params"]}}
        jobs.append({"id": jid0 + k, "kind": "parse_function", "src": src, "name": fname, "truth": truth, "inmem": False})
    return jobs


def gen_class_job(ch, jid, label):
    """A class with annotated attributes plus an __init__ whose parameters partly overlap the attributes."""
    n_attr = ch.int(label + ".na", 0, 3)
    n_init = ch.int(label + ".ni", 1, 4)
    names = ch.sample(label + ".names", render.WORDS, n_attr + n_init)
    attrs = names[:n_attr]
    init = names[n_attr:]
    if attrs and ch.chance(label + ".overlap", 0.4):
        init = [attrs[0]] + init[1:]
    cname = ch.choice(label + ".cname", ["Thing", "Settings", "Paths"])
    empty_doc = ch.chance(label + ".emptydoc", 0.12)
    if empty_doc:
        # a docstring that is present but empty
        lines = ["class %s(object):" % cname, '    """ """', ""]
        doc_attrs = []
    else:
        lines = ["class %s(object):" % cname, '    """', "    A thing.", ""]
        doc_attrs = [a for a in attrs if ch.chance(label + ".da." + a, 0.6)]
        for a in doc_attrs:
            lines.append("    :cvar %s: the attribute %s" % (a, a))
        lines += ['    """', ""]
    attr_info = {}
    for a in attrs:
        typ = render.gen_type(ch, label + ".at." + a, "conservative")
        d = render.gen_default(ch, typ, label + ".ad." + a)
        lines.append("    %s: %s = %s" % (a, typ, render.lit(d)))
        attr_info[a] = {"typ": typ, "default": d}
    lines.append("")
    params = []
    seen_def = False
    for p in init:
        has = seen_def or ch.chance(label + ".ph." + p, 0.6)
        seen_def = seen_def or has
        typ = render.gen_type(ch, label + ".pt." + p, "conservative")
        params.append({"name": p, "typ": typ, "default": render.gen_default(ch, typ, label + ".pd." + p) if has else None, "doc": "the parameter %s" % p})
    documented = ch.subset(label + ".docsub", [p["name"] for p in params], 0.5)
    if ch.chance(label + ".docshuf", 0.3):
        documented = ch.shuffle(label + ".docshuf2", documented)
    # other definitions of the name __init__ below the class: a nested class with a constructor of its own (before or after
    # the class's own), a class defined locally inside a method.  Python's view of the class is not affected by them.
    nested = ch.weighted(label + ".nested", [(None, 8), ("before", 1), ("after", 1), ("local", 1)])
    inner = ["    class Inner(object):", '        """ helper """', "", "        def __init__(self, warmup: int = 3, decay: float = 0.5):", "            self.warmup = warmup", ""]
    if nested == "before":
        lines += inner
    sig = ["self"] + [p["name"] + (": %s" % p["typ"]) + ((" = " + render.lit(p["default"])) if p["default"] is not None else "") for p in params]
    lines.append("    def __init__(%s):" % ", ".join(sig))
    byname = {p["name"]: p for p in params}
    if empty_doc:
        documented = []
        lines += ['        """"""', "        self.value = 1"]
    else:
        lines += ['        """', "        Construct.", ""]
        for n in documented:
            lines += ["        :param %s: %s" % (n, byname[n]["doc"]), ""]
        lines += ['        """', "        self.value = 1"]
    if nested == "after":
        lines += [""] + inner[:-1]
    elif nested == "local":
        lines += ["", "    def build(self):", "        class Local(object):", "            def __init__(self, scratch=1):", "                self.scratch = scratch", "", "        return Local()"]
    src = "\n".join(lines) + "\n"
    truth = {"attrs": attrs, "init": [p["name"] for p in params], "documented": documented, "doc_attrs": doc_attrs,
             "params": {p["name"]: {"typ": p["typ"], "default": p["default"], "doc": p["doc"]} for p in params}, "attr_info": attr_info}
    return {"id": jid, "kind": "parse_class_init", "src": src, "name": cname, "truth": truth, "inmem": ch.chance(label + ".inmem", 0.15)}


def gen_hop_job(ch, jid, label):
    """src(kind A) -> parse -> emit(kind B) -> text"""
    desc = render.gen_desc(ch, "conservative", 1, 4, label)
    desc["returns"] = None
    add_computed_default(ch, label, desc)
    spice_names_and_prose(ch, label, desc)
    add_named_type(ch, label, desc, 0.2)
    a = ch.choice(label + ".a", ["class", "function", "argparse"])
    b = ch.choice(label + ".b", ["class", "function", "argparse", "docstring_rest", "docstring_numpydoc", "docstring_google"])
    names = [p["name"] for p in desc["params"]]
    if a == "class":
        src = render.render_class(desc, "Config")
    elif a == "function":
        documented = ch.subset(label + ".docsub", names, 0.5)
        src = render.render_function(desc, "train", documented=documented, inline_types=ch.chance(label + ".inl", 0.7))
    else:
        src = render.render_argparse(desc)
    return {"id": jid, "kind": "hop", "a": a, "b": b, "src": src}


def gen_hop_group(ch, jid0, label):
    """Several conversions of ONE source text.  Inside a replica the source is parsed once and the resulting interface
    description is handed to every emitter that asks for it (as sync does): whatever order the schedule puts them in,
    each must give the output it gives alone."""
    desc = render.gen_desc(ch, "conservative", 1, 4, label)
    desc["returns"] = None
    add_computed_default(ch, label, desc)
    add_named_type(ch, label, desc, 0.2)
    a = ch.choice(label + ".a", ["class", "function", "function", "argparse"])
    names = [p["name"] for p in desc["params"]]
    if a == "class":
        src = render.render_class(desc, "Config")
    elif a == "function":
        body = ["total = %s" % names[0], "print(total, %s)" % names[-1]]
        src = render.render_function(desc, "train", documented=ch.subset(label + ".docsub", names, 0.6), inline_types=ch.chance(label + ".inl", 0.7), body=body)
    else:
        src = render.render_argparse(desc)
    targets = ch.shuffle(label + ".targets", ["class", "function_same", "argparse_same", "docstring_rest", "function", "argparse"])[: ch.int(label + ".nt", 3, 5)]
    return [{"id": jid0 + i, "kind": "hop", "a": a, "b": b, "src": src, "share_ir": True} for i, b in enumerate(targets)]


def gen_docstring_job(ch, jid, label):
    desc = render.gen_desc(ch, "conservative", 0, 4, label)
    style = ch.choice(label + ".style", ["rest", "google", "numpydoc"])
    ind = ""
    lines = [desc["doc"], ""] + render._doc_lines(style, desc["params"], desc["returns"], False, ind)
    return {"id": jid, "kind": "parse_docstring", "text": "\n".join(lines) + "\n"}


BAD_DOCSTRINGS = [
    # conversions that are *rejected* (they raise) part-way through a docstring: what they leave behind in the process
    # must not influence later conversions
    "Load things.\n\nArgs:\n  width (int): the width. Defaults to 3\n  classes (int): number of classes. Defaults to NUM_CLASSES\n  name (str): the name\n",
    "Load things.\n\nArgs:\n  a (int): first. Defaults to 5\n  b (int, optional: second\n",
    "Load things.\n\nParameters\n----------\nwidth : int\n    the width. Defaults to 3\nclasses : int\n    number of classes. Defaults to NUM_CLASSES\n",
]


def gen_bad_docstring_job(ch, jid, label):
    return {"id": jid, "kind": "parse_docstring", "text": ch.choice(label + ".bad", BAD_DOCSTRINGS), "expected_to_raise": True}


def gen_plain_docstring_job(ch, jid, label):
    """google / numpydoc docstrings whose leading parameters have no default (sensitive to state left by earlier conversions)"""
    n = ch.int(label + ".n", 2, 4)
    names = ch.sample(label + ".names", render.WORDS, n)
    style = ch.choice(label + ".style", ["google", "numpydoc"])
    params = []
    for i, nme in enumerate(names):
        typ = ch.choice("%s.t%d" % (label, i), ["str", "int", "float", "bool"])
        has = i == n - 1 and ch.chance(label + ".lastdef", 0.5)
        params.append({"name": nme, "typ": typ, "doc": "the %s value" % nme + (". Defaults to 3" if has else ""), "default": None})
    lines = ["Do the thing.", ""] + render._doc_lines(style, params, None, False, "")
    return {"id": jid, "kind": "parse_docstring", "text": "\n".join(lines) + "\n", "also_emit": ch.choice(label + ".emit", ["argparse", "rest", None])}


def gen_sync_job(ch, jid, label):
    desc = render.gen_desc(ch, "conservative", 1, 3, label)
    desc["returns"] = None
    names = [p["name"] for p in desc["params"]]
    documented = ch.subset(label + ".docsub", names, 0.5)
    truth = ch.choice(label + ".truth", ["class", "function"])
    files = {"cls.py": render.render_class(desc, "Config"),
             "fn.py": render.render_function(desc, "train", documented=documented)}
    if ch.chance(label + ".ap", 0.5):
        files["ap.py"] = "import os\n"
    return {"id": jid, "kind": "sync", "truth": truth, "files": files}


def gen_gen_job(ch, jid, label):
    """`gen` over a mapping of several classes: every entry of the mapping is one conversion, all made in one process in
    mapping order.  The text emitted for one entry must not depend on which entries were converted before it."""
    n = ch.int(label + ".n", 2, 4)
    cnames = ch.sample(label + ".cnames", ["Alpha", "Beta", "Gamma", "Delta", "Epsilon"], n)
    classes = []
    for c in cnames:
        desc = render.gen_desc(ch, "conservative", 1, 3, label + "." + c)
        desc["returns"] = None
        classes.append({"name": c, "src": render.render_class(desc, c)})
    return {"id": jid, "kind": "gen", "classes": classes, "order": ch.shuffle(label + ".order", list(cnames)), "pick": ch.choice(label + ".pick", cnames),
            "type": ch.weighted(label + ".type", [("class", 4), ("argparse", 1)]),
            "decorators": ch.choice(label + ".dec", [None, ["dataclass"], ["dataclass", "final"]]),
            "emit_call": ch.chance(label + ".call", 0.3), "name_tpl": ch.choice(label + ".tpl", ["{name}Config", "Gen{name}"]),
            # imports taken over from a file (root-level imports, some of them inside try / if blocks)
            # text put in front of the generated module (it may import names; doctrans evaluates it when an imports file is given too)
            "prepend": ch.choice(label + ".prepend", [None, None, "from typing import List, Optional\n", "import os\n\nHERE = os.getcwd()\n"]),
            "imports": ch.choice(label + ".imports", [None, "import os\nfrom typing import Optional\n", "import sys\n\ntry:\n    import json\nexcept ImportError:\n    json = None\n"])}


def gen_sp_eval_job(ch, jid, label):
    """sync_properties --input-eval: the input module is *executed*.  It may succeed, or fail while being evaluated (an import
    that is not installed, a missing data file) - either way the process must be left as it was."""
    fails = ch.choice(label + ".fails", [None, None, "import package_that_is_not_installed_%d" % jid, "raise RuntimeError('no data file')"])
    inp = "%sCHOICES = ('p', 'q', 'r')\n" % ((fails + "\n") if fails else "")
    outp = "from typing import Literal\n\n\ndef target_fn(kind: str = 'p', keep: int = 1):\n    return keep\n"
    return {"id": jid, "kind": "sp_eval", "input": inp, "output": outp, "fails": bool(fails)}


def gen_wrap_job(ch, jid, label):
    """C18: a description whose summary / prose / types are shorter than, about equal to and much longer than typical widths."""
    n = ch.int(label + ".n", 1, 4)
    names = ch.sample(label + ".names", render.WORDS, n)
    words = ["alpha", "beta", "gamma", "delta", "epsilon", "zeta", "eta", "theta", "iota", "kappa", "lambda", "mu", "nu", "xi", "omicron", "pi", "rho", "sigma", "tau"]

    # words that begin or end with punctuation (Sphinx roles, inline code, options, brackets): where the wrapper breaks
    # the line decides which of them starts a line
    markup = [":class:`tf.data.Dataset`", ":func:`evaluate`", ":py:mod:`os.path`", "`axis=0`", "--verbose", "*weights", "(optional)", "e.g.,", "[batch,", "dim]", "x:y", "1.",
              # words that end in a hyphen (suspended hyphens), a dash between blanks, a hyphenated word
              "pre-", "32-", "-", "well-known",
              # words ending in a backslash (a Windows path, a LaTeX line break)
              "C:\\ProgramData\\", "\\\\"]

    def prose(lab, lo, hi):
        k = ch.int(lab, lo, hi)
        ws = [words[(i * 7 + k) % len(words)] for i in range(k)]
        if k >= 8 and ch.chance(lab + ".markup", 0.3):
            for j in range(ch.int(lab + ".nmark", 1, 3)):
                ws[ch.int(lab + ".markat%d" % j, 1, k - 1)] = ch.choice(lab + ".mark%d" % j, markup)
        return " ".join(ws)

    params = []
    for i, nme in enumerate(names):
        size = ch.choice("%s.p%d.size" % (label, i), ["short", "medium", "long"])
        doc = prose("%s.p%d.doc" % (label, i), *{"short": (2, 4), "medium": (8, 14), "long": (25, 45)}[size])
        typ = ch.choice("%s.p%d.typ" % (label, i), ["str", "int", "Optional[str]", "Literal['np', 'tf']",
                                                    "Optional[Literal['alpha', 'beta', 'gamma', 'delta', 'epsilon', 'zeta', 'eta', 'theta']]",
                                                    # PEP 604 spelling: a long type whose separators are outside every bracket
                                                    "int | Dict[str, int] | List[Tuple[str, int]] | None"])
        d = render.gen_default(ch, "int" if "|" in typ else typ if not typ.startswith("Optional[Literal") else "str", "%s.p%d.def" % (label, i))
        sentence = ch.weighted("%s.p%d.sent" % (label, i), [("no", 3), ("with_key", 1), ("without_key", 1)])
        if sentence != "no" and d is not None and d.get("v") is not None:
            # the description itself announces the default (as a description parsed from an existing docstring does)
            v = d["v"]
            doc = doc + ". Defaults to " + (('"%s"' % v) if isinstance(v, str) else repr(v))
            if sentence == "without_key":
                d = "ABSENT"
        params.append({"name": nme, "typ": typ, "doc": doc, "default": d})
    summary = prose(label + ".sum", *ch.choice(label + ".sumsize", [(3, 5), (10, 16), (30, 50)])).capitalize() + "."
    returns = None
    if ch.chance(label + ".ret", 0.35):
        # a return entry: short and long types (the argparse emitter nests them in Tuple[ArgumentParser, ...]), short and long prose
        rsize = ch.choice(label + ".ret.size", ["short", "short", "medium", "long"])
        returns = {"typ": ch.choice(label + ".ret.typ", ["int", "List[int]", "Dict[str, int]", "Tuple[np.ndarray, np.ndarray]", "Optional[Literal['alpha', 'beta', 'gamma', 'delta']]",
                                                        "tf.keras.optimizers.schedules.LearningRateSchedule"]),
                   "doc": prose(label + ".ret.doc", *{"short": (2, 4), "medium": (8, 14), "long": (25, 45)}[rsize])}
        # (the argparse route only has a return entry when the function returns a pair: a default, as quoted source text)
        returns["default"] = {"int": "```0```", "List[int]": "```[1, 2]```", "Dict[str, int]": "```{'a': 1}```",
                              "Tuple[np.ndarray, np.ndarray]": "```(np.empty(0), np.empty(0))```"}.get(returns["typ"], "```None```") if ch.chance(label + ".ret.def", 0.7) else None
    return {"id": jid, "kind": "wrap", "desc": {"doc": summary, "params": params, "returns": returns, "kwargs": None}}


def gen_corpus(seed, prop, n):
    ch = Chooser(seed)
    jobs = []
    for i in range(n):
        if len(jobs) >= n:
            break
        i = len(jobs)
        lab = "j%d" % i
        if prop == "C07":
            kind = ch.weighted(lab, [("fn", 7), ("cls", 3), ("baddoc", 0.5), ("fntwins", 0.6)])
        elif prop == "C18":
            kind = "wrap"
        else:
            kind = ch.weighted(lab, [("fn", 5), ("cls", 2), ("hop", 2), ("hopgroup", 1.2), ("doc", 1), ("sync", 1), ("baddoc", 0.6), ("plaindoc", 1.5), ("gen", 0.8), ("fntwins", 0.6), ("speval", 0.5)])
        if kind == "fn":
            jobs.append(gen_fn_job(ch, i, lab, allow_stale_docs=(prop == "C12")))
        elif kind == "fntwins":
            jobs.extend(gen_fn_twins(ch, i, lab))
        elif kind == "cls":
            jobs.append(gen_class_job(ch, i, lab))
        elif kind == "hop":
            jobs.append(gen_hop_job(ch, i, lab))
        elif kind == "hopgroup":
            jobs.extend(gen_hop_group(ch, i, lab))
        elif kind == "doc":
            jobs.append(gen_docstring_job(ch, i, lab))
        elif kind == "baddoc":
            jobs.append(gen_bad_docstring_job(ch, i, lab))
        elif kind == "plaindoc":
            jobs.append(gen_plain_docstring_job(ch, i, lab))
        elif kind == "sync":
            jobs.append(gen_sync_job(ch, i, lab))
        elif kind == "gen":
            jobs.append(gen_gen_job(ch, i, lab))
        elif kind == "speval":
            jobs.append(gen_sp_eval_job(ch, i, lab))
        else:
            jobs.append(gen_wrap_job(ch, i, lab))
    return jobs


def gen_replicas(seed, prop, njobs, nrep, tier):
    ch = Chooser(seed).fork("replicas")
    reps = []
    for r in range(nrep):
        if prop == "C18":
            if r == 0:
                ll = None
            else:
                ll = ch.choice("ll%d" % r, [40, 41, 50, 60, 72, 79, 80, 88, 99, 100, 101, 119, 120, 150, 200]) if r < 16 else ch.int("llr%d" % r, 40, 200)
            hs = 0
            schedule = list(range(njobs))
        else:
            hs = r if r < 2 else ch.int("hs%d" % r, 0, 2 ** 32 - 1)
            ll = None
            # permutation with repetition: a shuffled corpus, then ~25% of it again (so that every job also runs "late" in some replica)
            order = ch.shuffle("perm%d" % r, list(range(njobs))) if r > 0 else list(range(njobs))
            again = ch.sample("again%d" % r, list(range(njobs)), max(1, njobs // 4))
            schedule = order + again
        # other per-process surroundings a conversion has no business reading: the size of the terminal (COLUMNS / LINES), the
        # locale, the time zone
        surroundings = None
        if prop != "C18" and r >= 2 and ch.chance("surr%d" % r, 0.35):
            surroundings = ch.choice("surrv%d" % r, [{"COLUMNS": "80", "LINES": "24"}, {"COLUMNS": "64"}, {"COLUMNS": "200"}, {"LC_ALL": "C", "LANG": "C"}, {"TZ": "Pacific/Auckland"}])
        reps.append({"rid": r, "hashseed": hs, "line_length": ll, "schedule": schedule, "surroundings": surroundings})
    return reps


# --------------------------------------------------------------------- replica side
def canon_ir(obj):
    """Canonical, order-preserving JSON-able form of an IR."""
    from collections import OrderedDict

    if isinstance(obj, (dict, OrderedDict)):
        return [[str(k), canon_ir(v)] for k, v in obj.items()]
    if isinstance(obj, (list, tuple)):
        return [canon_ir(x) for x in obj]
    if isinstance(obj, ast.AST):
        return "AST:" + ast.dump(obj)
    if isinstance(obj, (str, int, float, bool)) or obj is None:
        return [type(obj).__name__, obj]
    return [type(obj).__name__, repr(obj)]


def _params_of(ir):
    return list((ir.get("params") or {}).items())


def _ws(s):
    return "".join((s or "").replace('"', "'").split())


def _norm_prose(s):
    return " ".join((s or "").split())


def c07_check_function(job, ir, sig_names, sig_params, live=False):
    """Clauses 1-4 of C07 for a parsed function.  Returns list of (clause, detail, extra sig fields)."""
    out = []
    t = job["truth"]
    got = [n for n, _ in _params_of(ir)]
    want = [n for n in sig_names]
    # clause 1: exactly Python's parameters, each once
    if sorted(got) != sorted(want):
        missing = [n for n in want if n not in got]
        extra = [n for n in got if n not in want]
        dup = sorted({n for n in got if got.count(n) > 1})
        what = "missing" if missing else ("extra" if extra else "duplicate")
        is_kwargs = bool(missing) and all(sig_params[n]["kind"] == "VAR_KEYWORD" for n in missing)
        out.append(("1-names", "parsed parameters %r, Python sees %r" % (got, want), {"what": what, "kwargs_only": is_kwargs,
                                                                                       "documented": _docmode(t)}))
        return out
    # clause 2: relative order is that of the source
    if got != want:
        doc_first = [n for n in t["documented"] if n in want] + [n for n in want if n not in t["documented"]]
        out.append(("2-order", "parsed order %r, source order %r" % (got, want),
                    {"documented": _docmode(t), "pattern": "documented-first" if got == doc_first else "other"}))
    byname = dict(_params_of(ir))
    for n in want:
        sp = sig_params[n]
        p = byname[n]
        if sp["kind"] == "VAR_KEYWORD":
            continue
        # clause 3: signature default / annotation fill the gaps (a default announced in the prose is documented
        # information and takes precedence: nothing to assert then)
        if sp["has_default"] and not (t["params"].get(n) or {}).get("announces"):
            if "default" not in p:
                out.append(("3-default", "%s: signature default %r is missing from the parsed interface" % (n, sp["default"]), {"how": "missing", "documented": _docmode(t)}))
            elif (t["params"].get(n) or {}).get("computed"):
                # only the expression can be carried; what is asserted is that a default is recorded at all, as source text
                # (from a live function: as source text or as the value Python computed from it)
                same_value = live and type(p["default"]) is type(sp["default"]) and p["default"] == sp["default"]
                if not ((isinstance(p["default"], str) and p["default"].startswith("```")) or same_value):
                    out.append(("3-default", "%s: the computed signature default is recorded as %s, not as source text" % (n, type(p["default"]).__name__),
                                {"how": "computed->%s" % type(p["default"]).__name__, "documented": _docmode(t), "style": t["style"],
                                 "announce_in_doc": any(x.get("announces") for x in t["params"].values()), "parsed_placeholder": False}))
            else:
                d = p["default"]
                if sp["default"] is None:
                    ok = d in (None, "None", "```None```", "```(None)```")
                else:
                    ok = type(d) is type(sp["default"]) and d == sp["default"]
                if not ok:
                    out.append(("3-default", "%s: parsed default %r (%s), signature default %r (%s)" % (n, d, type(d).__name__, sp["default"], type(sp["default"]).__name__),
                                {"how": "%s->%s" % (type(sp["default"]).__name__, type(d).__name__), "documented": _docmode(t), "style": t["style"],
                                 "announce_in_doc": any(x.get("announces") for x in t["params"].values()),
                                 # a placeholder where the signature has a value is another failure than a wrong value
                                 "parsed_placeholder": d in (None, "None", "```None```", "```(None)```"),
                                 # the signature's default is a string that itself starts and ends with one and the same quote character
                                 "sig_default_in_quotes": True if isinstance(sp["default"], str) and len(sp["default"]) >= 2 and sp["default"][0] == sp["default"][-1] and sp["default"][0] in "'\"" else None}))
        tp = t["params"].get(n) or {}
        if sp["has_default"] and tp.get("announces") and tp.get("announces_same") and n in t["documented"]:
            # the prose announces exactly the signature's (numeric) default, once: whichever source wins, the value is that one
            d = p.get("default")
            if not (isinstance(d, (int, float)) and not isinstance(d, bool) and d == sp["default"]):
                out.append(("3-default-announced", "%s: docstring and signature both say %r, parsed default is %r" % (n, sp["default"], d), {"style": t["style"]}))
        if not sp["has_default"] and "default" in p and p["default"] not in (None, "None", "```None```", "```(None)```") and not (t["params"].get(n) or {}).get("announces"):
            out.append(("3-default-invented", "%s: Python sees a required parameter, the parsed interface gives it the default %r" % (n, p["default"]),
                        {"documented": _docmode(t), "style": t["style"], "announce_in_doc": any(x.get("announces") for x in t["params"].values()),
                         "parsed_placeholder": False}))
        if sp["annotation"] is not None and not (t["params"].get(n) or {}).get("announces"):
            if _ws(p.get("typ")) != _ws(sp["annotation"]):
                out.append(("3-annotation", "%s: parsed type %r, signature annotation %r" % (n, p.get("typ"), sp["annotation"]),
                            {"documented": _docmode(t), "computed_default": bool((t["params"].get(n) or {}).get("computed")), "parsed_type_missing": p.get("typ") is None}))
        # clause 4: prose attached to the parameter it names, and to no other
        if n in t["documented"]:
            if not t["params"][n].get("announces") and _norm_prose(p.get("doc")) != _norm_prose(t["params"][n]["doc"]):
                out.append(("4-prose", "%s: parsed prose %r, documented prose %r" % (n, p.get("doc"), t["params"][n]["doc"]), {"style": t["style"]}))
            if not t["inline"] and t["params"][n]["typ"] and _ws(p.get("typ")) != _ws(t["params"][n]["typ"]):
                out.append(("4-doctype", "%s: parsed type %r, documented type %r" % (n, p.get("typ"), t["params"][n]["typ"]),
                            {"style": t["style"], "computed_default": bool(t["params"][n].get("computed")), "parsed_type_missing": p.get("typ") is None}))
        elif p.get("doc"):
            out.append(("4-prose-misattributed", "%s is not documented but got prose %r" % (n, p.get("doc")), {"style": t["style"]}))
    return out


def _docmode(t):
    d, names = t["documented"], [n for n in t.get("names", t.get("init", []))]
    if not d:
        return "none"
    if len(d) >= len([n for n in names if n != "kwargs"]):
        return "all" if d == [n for n in names if n in d] else "all-shuffled"
    return "some" if d == [n for n in names if n in d] else "some-shuffled"


def _sig_of(obj):
    import inspect

    sig = inspect.signature(obj)
    names, params = [], {}
    for i, (n, p) in enumerate(sig.parameters.items()):
        if i == 0 and n in ("self", "cls"):
            continue
        names.append(n)
        params[n] = {"kind": p.kind.name, "has_default": p.default is not inspect.Parameter.empty,
                     "default": None if p.default is inspect.Parameter.empty else p.default,
                     "annotation": None}
    return names, params


def _annotations_from_source(fn_node):
    out = {}
    for a in fn_node.args.args + fn_node.args.kwonlyargs:
        out[a.arg] = ast.unparse(a.annotation) if a.annotation is not None else None
    return out


JOB_TIMEOUT_S = 10


class JobTimeout(BaseException):
    pass


def _on_alarm(signum, frame):
    raise JobTimeout()


class Replica(object):
    def __init__(self, task):
        signal.signal(signal.SIGALRM, _on_alarm)
        self.task = task
        self.ns = core.load_doctrans()
        self.tmp = None
        self.count = {}
        self.ir_by_src = {}
        self.results = []
        self.violations = []

    def tmpdir(self):
        if self.tmp is None:
            base = "/dev/shm" if os.path.isdir("/dev/shm") else os.environ.get("TMPDIR", "/tmp")
            self.tmp = os.path.join(base, "dtsim-rep-%d" % os.getpid())
            os.makedirs(self.tmp, exist_ok=True)
        return self.tmp

    def close(self):
        if self.tmp:
            import shutil

            shutil.rmtree(self.tmp, ignore_errors=True)

    def run(self):
        jobs = {j["id"]: j for j in self.task["jobs"]}
        timeouts = 0
        if self.task["prop"] == "C12":
            self._proc_state = (os.getcwd(), sorted(os.environ.items()))
        for jid in self.task["schedule"]:
            if timeouts >= 2:
                break  # two hangs are evidence enough; do not spend the budget on more
            occ = self.count.get(jid, 0)
            self.count[jid] = occ + 1
            job = jobs[jid]
            signal.alarm(JOB_TIMEOUT_S)
            try:
                res = self.execute(job, occ)
            except JobTimeout:
                timeouts += 1
                res = {"exception": "did not terminate within %d s" % JOB_TIMEOUT_S}
                self.add_violation(self.task["prop"], job, "T-no-termination", "job %d (%s) did not terminate within %d s (line_length %s)" % (
                    jid, job["kind"], JOB_TIMEOUT_S, self.task.get("line_length")), {"explicit_width": self.task.get("line_length") is not None})
            except Exception as e:
                # object addresses in messages are not output of the conversion
                res = {"exception": "%s: %s" % (type(e).__name__, re.sub(r"0x[0-9a-fA-F]+", "0x?", str(e))[:200])}
            finally:
                signal.alarm(0)
            # what a conversion leaves behind in the *process* (not in doctrans' own modules): the working directory and the
            # environment are inputs of every later conversion that names a file by a relative path or reads a setting
            if self.task["prop"] == "C12":
                now = (os.getcwd(), sorted(os.environ.items()))
                if not hasattr(self, "_proc_state"):
                    self._proc_state = now
                elif now != self._proc_state:
                    what = "working directory" if now[0] != self._proc_state[0] else "environment"
                    self.add_violation("C12", job, "P-process-state-left-behind", "job %d (%s) changed the %s of the process: later conversions that use relative paths / settings depend on it" % (
                        jid, job["kind"], what), {"what": what})
                    os.chdir(self._proc_state[0])
            payload = core.canon(res)
            self.results.append([jid, occ, hashlib.sha256(payload.encode()).hexdigest()[:20], payload if self.task.get("want_payload") else None])
        return {"results": self.results, "violations": self.violations, "probe": self.probe()}

    def probe(self):
        # which set-iteration order did this replica realise?  (measure of distinct interleavings)
        return hashlib.sha256(repr(list({"alpha", "beta", "gamma", "delta", "epsilon", "zeta", "eta", "theta"})).encode()).hexdigest()[:8]

    # -- jobs
    def execute(self, job, occ):
        k = job["kind"]
        ns = self.ns
        if k == "parse_function":
            tree = ast.parse(job["src"])
            fn = tree.body[0]
            ir = ns.parse.function(fn)
            if self.task["prop"] == "C07" and occ == 0:
                self.c07_function(job, ir, fn)
                if job.get("inmem") and job["truth"]["ftype"] == "static":
                    self.c07_inmem(job)
            return canon_ir(ir)
        if k == "parse_class_init":
            tree = ast.parse(job["src"])
            ir = ns.parse.class_(tree.body[0], merge_inner_function="__init__")
            if self.task["prop"] == "C07" and occ == 0:
                self.c07_class(job, ir)
                if job.get("inmem"):
                    self.c07_class_inmem(job)
            return canon_ir(ir)
        if k == "parse_docstring":
            ir = ns.parse.docstring(job["text"])
            out = [canon_ir(ir)]
            if job.get("also_emit") == "argparse":
                out.append(ns.st.to_code(ns.emit.argparse_function(ir)))
            elif job.get("also_emit") == "rest":
                out.append(ns.emit.docstring(ir, docstring_format="rest"))
            return out
        if k == "hop":
            if job.get("share_ir"):
                # one interface description per source text for the lifetime of the replica
                if job["src"] not in self.ir_by_src:
                    node0 = ast.parse(job["src"]).body[0]
                    self.ir_by_src[job["src"]] = {"class": ns.parse.class_, "function": ns.parse.function, "argparse": ns.parse.argparse_ast}[job["a"]](node0)
                ir = self.ir_by_src[job["src"]]
            else:
                tree = ast.parse(job["src"])
                node = tree.body[0]
                ir = {"class": ns.parse.class_, "function": ns.parse.function, "argparse": ns.parse.argparse_ast}[job["a"]](node)
            b = job["b"]
            if b == "function_same":
                return ns.st.to_code(ns.emit.function(ir, function_name=None, function_type=None))
            if b == "argparse_same":
                return ns.st.to_code(ns.emit.argparse_function(ir, function_name=None, function_type=None))
            if b == "class":
                return ns.st.to_code(ns.emit.class_(ir))
            if b == "function":
                return ns.st.to_code(ns.emit.function(ir, function_name="f", function_type="static"))
            if b == "argparse":
                return ns.st.to_code(ns.emit.argparse_function(ir))
            return ns.emit.docstring(ir, docstring_format=b.split("_", 1)[1])
        if k == "sync":
            return self.sync_job(job, occ)
        if k == "wrap":
            return self.wrap_job(job)
        if k == "gen":
            return self.gen_job(job, occ)
        if k == "sp_eval":
            d = os.path.join(self.tmpdir(), "speval_%d_%d" % (job["id"], occ), "lab")
            os.makedirs(d, exist_ok=True)
            with open(os.path.join(d, "labels.py"), "wt") as f:
                f.write(job["input"])
            with open(os.path.join(d, "model.py"), "wt") as f:
                f.write(job["output"])
            try:
                self.ns.sp.sync_properties(input_eval=True, input_filename=os.path.join(d, "labels.py"), input_params=["CHOICES"],
                                           output_filename=os.path.join(d, "model.py"), output_params=["target_fn.kind"])
                status = "ok"
            except BaseException as e:  # the evaluated module may raise anything
                if isinstance(e, (KeyboardInterrupt, JobTimeout)):
                    raise
                status = "raised %s" % type(e).__name__
            with open(os.path.join(d, "model.py"), "rt") as f:
                return {"status": status, "output": f.read()}
        raise HarnessError("unknown job kind %r" % k)

    def add_violation(self, prop, job, clause, detail, extra):
        sig = {"property": prop, "oracle": clause, "job_kind": job["kind"]}
        sig.update({k: v for k, v in extra.items() if v is not None})
        self.violations.append({"property": prop, "oracle": clause, "sig": sig, "detail": detail, "job": job["id"]})

    def c07_function(self, job, ir, fn_node):
        g = {}
        exec(compile(PRELUDE + "np = None\n" + job["src"], "<job%d>" % job["id"], "exec"), g)
        names, params = _sig_of(g[job["name"]])
        ann = _annotations_from_source(fn_node)
        for n in params:
            params[n]["annotation"] = ann.get(n)
        for clause, detail, extra in c07_check_function(job, ir, names, params):
            extra = dict(extra, route="ast", ftype=job["truth"]["ftype"], kwonly=job["truth"]["kwonly"])
            self.add_violation("C07", job, clause, detail, extra)

    def c07_inmem(self, job):
        import importlib.util

        path = os.path.join(self.tmpdir(), "dtjob_%d.py" % job["id"])
        with open(path, "wt") as f:
            f.write(PRELUDE + "np = None\n" + job["src"])
        spec = importlib.util.spec_from_file_location("dtjob_%d" % job["id"], path)
        mod = importlib.util.module_from_spec(spec)
        spec.loader.exec_module(mod)
        obj = getattr(mod, job["name"])
        try:
            ir = self.ns.parse.function(obj)
        except Exception as e:
            self.add_violation("C07", job, "0-raises", "parse.function(<function object>) raised %s: %s" % (type(e).__name__, str(e)[:120]),
                               {"route": "inmem", "exc": type(e).__name__})
            return
        names, params = _sig_of(obj)
        fn_node = ast.parse(job["src"]).body[0]
        ann = _annotations_from_source(fn_node)
        for n in params:
            params[n]["annotation"] = None  # the in-memory route renders annotation objects; only names/order/defaults/prose are compared
        for clause, detail, extra in c07_check_function(job, ir, names, params, live=True):
            if clause.startswith("4-doctype"):
                continue
            self.add_violation("C07", job, clause, detail, dict(extra, route="inmem"))

    def c07_class_inmem(self, job):
        """The same class as an object in memory: parse.class_(<type>, merge_inner_function='__init__')."""
        import importlib.util

        path = os.path.join(self.tmpdir(), "dtcls_%d.py" % job["id"])
        with open(path, "wt") as f:
            f.write(PRELUDE + job["src"])
        spec = importlib.util.spec_from_file_location("dtcls_%d" % job["id"], path)
        mod = importlib.util.module_from_spec(spec)
        sys.modules["dtcls_%d" % job["id"]] = mod  # inspect.getsource of a class looks its module up there
        spec.loader.exec_module(mod)
        cls = getattr(mod, job["name"])
        try:
            ir = self.ns.parse.class_(cls, merge_inner_function="__init__")
        except Exception as e:
            self.add_violation("C07", job, "0-raises", "parse.class_(<class object>, merge_inner_function='__init__') raised %s: %s" % (type(e).__name__, str(e)[:120]),
                               {"route": "inmem-class", "exc": type(e).__name__})
            return
        t = job["truth"]
        init_names, _ = _sig_of(cls.__init__)
        attrs = list(t["attrs"])
        want = attrs + [n for n in init_names if n not in attrs]
        got = [n for n, _ in _params_of(ir)]
        if sorted(got) != sorted(want):
            missing = [n for n in want if n not in got]
            dup = sorted({n for n in got if got.count(n) > 1})
            self.add_violation("C07", job, "1-names", "in-memory class+__init__ merge: parsed %r, expected the union %r" % (got, want),
                               {"what": "missing" if missing else ("duplicate" if dup else "extra"), "route": "inmem-class"})
            return
        gi = [n for n in got if n in init_names and n not in attrs]
        if gi != [n for n in init_names if n not in attrs]:
            self.add_violation("C07", job, "2-order", "in-memory: __init__ parameters parsed in order %r, source order %r" % (gi, [n for n in init_names if n not in attrs]),
                               {"which": "init", "route": "inmem-class", "documented": _docmode(t)})

    def c07_class(self, job, ir):
        t = job["truth"]
        g = {}
        exec(compile(PRELUDE + job["src"], "<job%d>" % job["id"], "exec"), g)
        cls = g[job["name"]]
        init_names, init_params = _sig_of(cls.__init__)
        attrs = [a for a in t["attrs"]]
        want = attrs + [n for n in init_names if n not in attrs]
        got = [n for n, _ in _params_of(ir)]
        if sorted(got) != sorted(want):
            missing = [n for n in want if n not in got]
            dup = sorted({n for n in got if got.count(n) > 1})
            self.add_violation("C07", job, "1-names", "class+__init__ merge: parsed %r, expected the union %r" % (got, want),
                               {"what": "missing" if missing else ("duplicate" if dup else "extra")})
            return
        # relative order of attributes, and of __init__ parameters, as in the source
        ga = [n for n in got if n in attrs]
        gi = [n for n in got if n in init_names]
        if ga != attrs:
            self.add_violation("C07", job, "2-order", "attributes parsed in order %r, source order %r" % (ga, attrs), {"which": "attributes"})
        if gi != [n for n in init_names]:
            self.add_violation("C07", job, "2-order", "__init__ parameters parsed in order %r, source order %r" % (gi, init_names),
                               {"which": "init", "documented": _docmode(t)})
        byname = dict(_params_of(ir))
        for n in init_names:
            if n in attrs:
                continue
            sp = init_params[n]
            p = byname[n]
            if sp["has_default"] and sp["default"] is not None:
                d = p.get("default")
                if not (type(d) is type(sp["default"]) and d == sp["default"]):
                    self.add_violation("C07", job, "3-default", "%s: parsed default %r, __init__ default %r" % (n, d, sp["default"]),
                                       {"how": "%s->%s" % (type(sp["default"]).__name__, type(d).__name__), "which": "init",
                                        "sig_default_in_quotes": True if isinstance(sp["default"], str) and len(sp["default"]) >= 2 and sp["default"][0] == sp["default"][-1] and sp["default"][0] in "'\"" else None})
            if n in t["documented"] and _norm_prose(p.get("doc")) != _norm_prose(t["params"][n]["doc"]):
                self.add_violation("C07", job, "4-prose", "%s: parsed prose %r, documented %r" % (n, p.get("doc"), t["params"][n]["doc"]), {"which": "init"})

    def sync_job(self, job, occ):
        import contextlib
        import io

        d = os.path.join(self.tmpdir(), "sync_%d_%d" % (job["id"], occ))
        os.makedirs(d, exist_ok=True)
        for rel, text in job["files"].items():
            with open(os.path.join(d, rel), "wt") as f:
                f.write(text)
        argv = ["sync", "--truth", job["truth"], "--class", os.path.join(d, "cls.py"), "--class-name", "Config",
                "--function", os.path.join(d, "fn.py"), "--function-name", "train"]
        if "ap.py" in job["files"]:
            argv += ["--argparse-function", os.path.join(d, "ap.py"), "--argparse-function-name", "set_cli_args"]
        out = io.StringIO()
        with contextlib.redirect_stdout(out), contextlib.redirect_stderr(io.StringIO()):
            try:
                self.ns.main.main(argv)
                status = "ok"
            except SystemExit as e:
                status = "exit%s" % e.code
        files = {}
        for rel in sorted(os.listdir(d)):
            with open(os.path.join(d, rel), "rt") as f:
                files[rel] = f.read()
        return {"status": status, "files": files, "stdout": out.getvalue().replace(d, "<D>")}

    def gen_job(self, job, occ):
        """C12 inside one `gen` run: the picked entry converted on its own, and as part of the whole mapping in the given
        order.  Returns the text emitted for it (compared across replicas as for every job); the two texts differing is
        a violation on the spot."""
        import contextlib
        import io

        d = os.path.join(self.tmpdir(), "gen_%d_%d" % (job["id"], occ))
        os.makedirs(d, exist_ok=True)
        texts = {}
        sys.path.insert(0, d)
        try:
            for variant, order in (("alone", [job["pick"]]), ("mapping", job["order"])):
                self.gen_n = getattr(self, "gen_n", 0) + 1
                mod = "dtsim_genmap_%d_%d" % (os.getpid(), self.gen_n)
                src = "from collections import OrderedDict\nfrom typing import *\n\nnp = None\n\n\n" + "\n\n".join(c["src"] for c in job["classes"])
                src += "\n\nMAPPING = OrderedDict((%s,))\n" % ", ".join("(%r, %s)" % (c, c) for c in order)
                with open(os.path.join(d, mod + ".py"), "wt") as f:
                    f.write(src)
                outp = os.path.join(d, "out_%s.py" % variant)
                imports_file = None
                if job.get("imports"):
                    imports_file = os.path.join(d, "imports_%s.py" % variant)
                    with open(imports_file, "wt") as f:
                        f.write(job["imports"])
                try:
                    with contextlib.redirect_stdout(io.StringIO()), contextlib.redirect_stderr(io.StringIO()):
                        self.ns.gen.gen(name_tpl=job["name_tpl"], input_mapping=mod + ".MAPPING", type_=job["type"], output_filename=outp,
                                        emit_call=job["emit_call"], decorator_list=job["decorators"], imports_from_file=imports_file, prepend=job.get("prepend"))
                    with open(outp, "rt") as f:
                        tree = ast.parse(f.read())
                    want = job["name_tpl"].format(name=job["pick"])
                    node = next((n for n in tree.body if getattr(n, "name", None) == want), None)
                    # the entry's own text, preceded by whatever the run put in front of its first definition (the imports)
                    preamble = [ast.unparse(n) for n in tree.body[: next((i for i, n in enumerate(tree.body) if hasattr(n, "name")), 0)]]
                    texts[variant] = "\n".join(preamble + ["<not emitted>" if node is None else ast.unparse(node)])
                except Exception as e:
                    texts[variant] = "EXC:%s" % type(e).__name__
                finally:
                    sys.modules.pop(mod, None)
        finally:
            sys.path.remove(d)
        if texts["alone"] != texts["mapping"]:
            self.add_violation("C12", job, "G-gen-entry-depends-on-earlier-entries",
                               "gen: the text emitted for %s differs between a mapping that holds it alone and the mapping %r" % (job["pick"], job["order"]),
                               {"type": job["type"], "position": job["order"].index(job["pick"]), "decorators": bool(job["decorators"])})
        return texts

    def wrap_job(self, job):
        """C18: every emitter with word_wrap on/off; parse both back; compare."""
        ns = self.ns
        from collections import OrderedDict

        desc = job["desc"]

        def mk_ir():
            params = OrderedDict()
            for p in desc["params"]:
                e = OrderedDict()
                e["doc"] = p["doc"]
                if p["typ"]:
                    e["typ"] = p["typ"]
                if p["default"] == "ABSENT":
                    pass  # the default lives in the prose only
                elif p["default"] is not None:
                    e["default"] = p["default"]["v"] if p["default"]["v"] is not None else "```None```"
                params[p["name"]] = e
            returns = None
            if desc.get("returns"):
                returns = OrderedDict((("return_type", OrderedDict((("doc", desc["returns"]["doc"]), ("typ", desc["returns"]["typ"])))),))
                if desc["returns"].get("default") is not None:
                    returns["return_type"]["default"] = desc["returns"]["default"]
            return {"name": "f", "type": "static", "doc": desc["doc"], "params": params, "returns": returns}

        emitters = {
            "rest": (lambda ww: ns.emit.docstring(mk_ir(), docstring_format="rest", word_wrap=ww), ns.parse.docstring),
            "google": (lambda ww: ns.emit.docstring(mk_ir(), docstring_format="google", word_wrap=ww), ns.parse.docstring),
            "numpydoc": (lambda ww: ns.emit.docstring(mk_ir(), docstring_format="numpydoc", word_wrap=ww), ns.parse.docstring),
            "class": (lambda ww: ns.emit.class_(mk_ir(), word_wrap=ww), lambda node: ns.parse.class_(ast.parse(ns.st.to_code(node)).body[0])),
            "function": (lambda ww: ns.emit.function(mk_ir(), function_name="f", function_type="static", word_wrap=ww),
                         lambda node: ns.parse.function(ast.parse(ns.st.to_code(node)).body[0])),
            "argparse": (lambda ww: ns.emit.argparse_function(mk_ir(), word_wrap=ww),
                         lambda node: ns.parse.argparse_ast(ast.parse(ns.st.to_code(node)).body[0])),
            # the same artefacts with the defaults spelled out in the prose ("Defaults to ...")
            "class_docs": (lambda ww: ns.emit.class_(mk_ir(), word_wrap=ww, emit_default_doc=True), lambda node: ns.parse.class_(ast.parse(ns.st.to_code(node)).body[0])),
            "function_docs": (lambda ww: ns.emit.function(mk_ir(), function_name="f", function_type="static", word_wrap=ww, emit_default_doc=True),
                              lambda node: ns.parse.function(ast.parse(ns.st.to_code(node)).body[0])),
            "function_docs_doctypes": (lambda ww: ns.emit.function(mk_ir(), function_name="f", function_type="static", word_wrap=ww, emit_default_doc=True, inline_types=False),
                                       lambda node: ns.parse.function(ast.parse(ns.st.to_code(node)).body[0])),
            "argparse_docs": (lambda ww: ns.emit.argparse_function(mk_ir(), word_wrap=ww, emit_default_doc=True),
                              lambda node: ns.parse.argparse_ast(ast.parse(ns.st.to_code(node)).body[0])),
            # the parsers have a word_wrap parameter of their own: with it off, too, layout must not reach the description
            "class_docs_parse_nowrap": (lambda ww: ns.emit.class_(mk_ir(), word_wrap=ww, emit_default_doc=True),
                                        lambda node: ns.parse.class_(ast.parse(ns.st.to_code(node)).body[0], word_wrap=False)),
            "function_docs_parse_nowrap": (lambda ww: ns.emit.function(mk_ir(), function_name="f", function_type="static", word_wrap=ww, emit_default_doc=True),
                                           lambda node: ns.parse.function(ast.parse(ns.st.to_code(node)).body[0], word_wrap=False)),
        }
        summary = {}
        ll = self.task.get("line_length")
        for kind, (emit, parse) in emitters.items():
            res = {}
            for ww in (True, False):
                try:
                    art = emit(ww)
                except Exception as e:
                    res[ww] = ("emit-raises", "%s: %s" % (type(e).__name__, str(e)[:100]))
                    continue
                try:
                    res[ww] = ("ok", parse(art))
                except Exception as e:
                    res[ww] = ("parse-raises", "%s: %s" % (type(e).__name__, str(e)[:100]))
            summary[kind] = [res[True][0], res[False][0]]
            for ww in (True, False):
                if res[ww][0] != "ok" and not (res[False][0] != "ok" and ww):
                    # an emitter/parser failure that also happens without wrapping is not C18's subject
                    if res[False][0] == "ok" or not ww:
                        if ww:
                            self.add_violation("C18", job, "W0-" + res[ww][0], "%s with word_wrap=True at width %s: %s" % (kind, ll, res[ww][1]),
                                               {"kind": kind, "exc": res[ww][1].split(":")[0], "explicit_width": ll is not None})
            if res[True][0] == "ok" and res[False][0] == "ok":
                a, b = res[True][1], res[False][1]
                pa, pb = _params_of(a), _params_of(b)
                if desc.get("returns"):
                    # the return entry is compared like a parameter (W2 / W3 / W4 with entry="return")
                    pa = pa + [("<return>", ((a.get("returns") or {}).get("return_type") or {"doc": "<no return entry>"}))]
                    pb = pb + [("<return>", ((b.get("returns") or {}).get("return_type") or {"doc": "<no return entry>"}))]
                if [n for n, _ in pa] != [n for n, _ in pb]:
                    self.add_violation("C18", job, "W1-names", "%s width %s: wrapped parses to parameters %r, unwrapped to %r" % (kind, ll, [n for n, _ in pa], [n for n, _ in pb]),
                                       {"kind": kind})
                    continue
                for (n, x), (_, y) in zip(pa, pb):
                    if _ws(x.get("typ")) != _ws(y.get("typ")):
                        head = lambda t: (t or "none").split("[")[0]
                        self.add_violation("C18", job, "W2-type", "%s width %s: %s type %r (wrapped) vs %r" % (kind, ll, n, x.get("typ"), y.get("typ")),
                                           {"kind": kind, "tchange": "%s->%s" % (head(x.get("typ")), head(y.get("typ"))), "entry": "return" if n == "<return>" else None})
                    if x.get("default") != y.get("default") or type(x.get("default")) is not type(y.get("default")):
                        self.add_violation("C18", job, "W3-default", "%s width %s: %s default %r (wrapped) vs %r" % (kind, ll, n, x.get("default"), y.get("default")),
                                           {"kind": kind, "dchange": "%s->%s" % (type(x.get("default")).__name__, type(y.get("default")).__name__), "entry": "return" if n == "<return>" else None,
                                            # the two values are strings that differ in their white space only (a tab, a run of blanks inside the value)
                                            "ws_only": True if isinstance(x.get("default"), str) and isinstance(y.get("default"), str) and x["default"].split() == y["default"].split() else None,
                                            # a string value with a backslash or a control character in it (an escape sequence that was or was not interpreted)
                                            "escapes": True if any(isinstance(d, str) and ("\\" in d or any(ord(c) < 32 for c in d)) for d in (x.get("default"), y.get("default"))) else None})
                    elif _norm_prose(x.get("doc")) != _norm_prose(y.get("doc")):
                        self.add_violation("C18", job, "W4-prose", "%s width %s: %s prose %r (wrapped) vs %r" % (kind, ll, n, x.get("doc"), y.get("doc")), {"kind": kind, "entry": "return" if n == "<return>" else None})
                if _norm_prose(a.get("doc")) != _norm_prose(b.get("doc")):
                    self.add_violation("C18", job, "W5-summary", "%s width %s: summary %r (wrapped) vs %r" % (kind, ll, a.get("doc"), b.get("doc")), {"kind": kind})
        return summary


def worker_main():
    """`dtsim worker replica <taskfile>`: run one replica, print its JSON result."""
    with open(sys.argv[3]) as f:
        task = json.load(f)
    devnull = open(os.devnull, "w")
    real_out = os.fdopen(os.dup(1), "w")
    sys.stdout = devnull
    rep = Replica(task)
    try:
        res = rep.run()
    finally:
        rep.close()
    # the result goes to a file next to the task (a pipe would block once it exceeds the pipe buffer)
    with open(sys.argv[3] + ".out", "wt") as f:
        json.dump(res, f, default=core._default)
    real_out.write("@@DONE\n")
    real_out.flush()


# ------------------------------------------------------------------- scheduler side
def run_replicas(prop, jobs, replicas, want_payload=False, timeout=600):
    """Start every replica as a fresh interpreter with its own environment; at most 16 at a time."""
    base = "/dev/shm" if os.path.isdir("/dev/shm") else os.environ.get("TMPDIR", "/tmp")
    d = os.path.join(base, "dtsim-sched-%d" % os.getpid())
    os.makedirs(d, exist_ok=True)
    maxpar = int(os.environ.get("DTSIM_WORKERS", "0")) or min(16, os.cpu_count() or 1)
    pending = list(replicas)
    running = []
    out = {}
    t0 = time.monotonic()
    try:
        while pending or running:
            while pending and len(running) < maxpar:
                rep = pending.pop(0)
                tf = os.path.join(d, "task%d.json" % rep["rid"])
                with open(tf, "wt") as f:
                    json.dump({"prop": prop, "jobs": jobs, "schedule": rep["schedule"], "line_length": rep.get("line_length"), "want_payload": want_payload}, f)
                env = core.worker_env(hashseed=rep["hashseed"], extra=dict({"DOCTRANS_LINE_LENGTH": rep.get("line_length")}, **(rep.get("surroundings") or {})))
                p = subprocess.Popen([core.PYTHON, "-W", "ignore", core.LAUNCHER, "worker", "replica", tf], env=env, cwd=core.VERIF,
                                     stdout=subprocess.PIPE, stderr=open(tf + ".err", "wb"))
                running.append((rep, p, time.monotonic()))
            still = []
            for rep, p, ts in running:
                if p.poll() is None:
                    if time.monotonic() - ts > timeout:
                        p.kill()
                        raise HarnessError("replica %d timed out" % rep["rid"])
                    still.append((rep, p, ts))
                    continue
                so, se = p.communicate()
                resf = os.path.join(d, "task%d.json.out" % rep["rid"])
                if p.returncode != 0 or b"@@DONE" not in so or not os.path.isfile(resf):
                    raise HarnessError("replica %d (hashseed %s, line_length %s) failed: rc=%s %s" % (rep["rid"], rep["hashseed"], rep.get("line_length"), p.returncode, open(os.path.join(d, "task%d.json.err" % rep["rid"]), "rb").read().decode(errors="replace")[-1500:]))
                with open(resf) as f:
                    out[rep["rid"]] = json.load(f)
            running = still
            if running:
                time.sleep(0.02)
    finally:
        for rep, p, ts in running:
            try:
                p.kill()
            except OSError:
                pass
        import shutil

        shutil.rmtree(d, ignore_errors=True)
    return out, time.monotonic() - t0


def compare_replicas(jobs, replicas, results):
    """C12 oracle: for every job, all digests over all replicas and occurrences are equal."""
    by_job = {}
    for rep in replicas:
        for jid, occ, dig, _payload in results[rep["rid"]]["results"]:
            by_job.setdefault(jid, []).append((dig, rep["rid"], occ))
    jobmap = {j["id"]: j for j in jobs}
    div = []
    for jid, lst in sorted(by_job.items()):
        digs = {d for d, _, _ in lst}
        if len(digs) > 1:
            ref = lst[0]
            other = next(x for x in lst if x[0] != ref[0])
            same_replica = any(a[1] == b[1] and a[0] != b[0] for a in lst for b in lst)
            div.append({"job": jid, "kind": jobmap[jid]["kind"], "ndigests": len(digs), "ref": ref, "other": other, "within_one_replica": same_replica})
    return div


def _job_sig_fields(job):
    f = {"job_kind": job["kind"]}
    if job["kind"] == "parse_function":
        f["documented"] = _docmode(job["truth"])
    if job["kind"] == "hop":
        f["a"], f["b"] = job["a"], job["b"]
    return f


def run_check(prop, tier):
    t0 = time.monotonic()
    base = core.base_seed()
    known = core.load_known()
    if tier == "quick":
        njobs, nrep, rounds = (300, 48, 3) if prop != "C18" else (120, 40, 1)
    else:
        njobs, nrep, rounds = (300, 64, 60) if prop != "C18" else (150, 64, 20)
    if "DTSIM_RUNS" in os.environ:
        njobs = int(os.environ["DTSIM_RUNS"])
    budget = float(os.environ.get("DTSIM_BUDGET_S", "420" if tier == "quick" else "900"))
    lines = []
    nviol = 0
    stats = {"replicas": 0, "job_executions": 0, "hashseeds": set(), "line_lengths": set(), "set_orders": set(), "jobs": 0, "violations_by_clause": {},
             "divergent_jobs": 0, "oracle_evaluations": 0}
    samples = []
    known_hit = {}
    new_sigs = {}
    for rnd in range(rounds):
        if rnd and time.monotonic() - t0 > budget:
            break
        seed = core.run_seed(base, rnd)
        jobs = gen_corpus(seed, prop, njobs)
        replicas = gen_replicas(seed, prop, len(jobs), nrep, tier)
        results, wall = run_replicas(prop, jobs, replicas)
        stats["replicas"] += len(replicas)
        stats["jobs"] += len(jobs)
        jobmap = {j["id"]: j for j in jobs}
        for rep in replicas:
            r = results[rep["rid"]]
            stats["job_executions"] += len(r["results"])
            stats["hashseeds"].add(rep["hashseed"])
            stats["line_lengths"].add(rep.get("line_length"))
            stats["set_orders"].add(r["probe"])
            for v in r["violations"]:
                if v["property"] != prop:
                    continue
                stats["violations_by_clause"][v["oracle"]] = stats["violations_by_clause"].get(v["oracle"], 0) + 1
                k = core.known_for(v["sig"], known)
                if k:
                    known_hit.setdefault(k["id"], [k, 0])[1] += 1
                else:
                    new_sigs.setdefault(core.digest(v["sig"]), {"v": v, "job": jobmap[v["job"]], "rep": rep, "seed": seed, "jobs": jobs})
        if prop == "C12":
            # self-check of the harness: the first replica is run twice?  no - agreement across replicas is the oracle itself
            for dv in compare_replicas(jobs, replicas, {k: v for k, v in results.items()}):
                stats["divergent_jobs"] += 1
                job = jobmap[dv["job"]]
                sig = {"property": "C12", "oracle": "D-divergence", "within_one_replica": dv["within_one_replica"]}
                sig.update(_job_sig_fields(job))
                k = core.known_for(sig, known)
                if k:
                    known_hit.setdefault(k["id"], [k, 0])[1] += 1
                else:
                    ra = next(r for r in replicas if r["rid"] == dv["ref"][1])
                    rb = next(r for r in replicas if r["rid"] == dv["other"][1])
                    new_sigs.setdefault(core.digest(sig), {"v": {"property": "C12", "oracle": "D-divergence", "sig": sig,
                                                                 "detail": "job %d (%s) produced %d different outputs across replicas/occurrences" % (dv["job"], job["kind"], dv["ndigests"])},
                                                           "job": job, "rep": ra, "rep2": rb, "seed": seed, "dv": dv, "jobs": jobs})
        if len(samples) < 3:
            j = jobs[len(samples)]
            samples.append({"corpus_seed": seed, "job": {k: v for k, v in j.items() if k != "truth"}, "replica0": {k: replicas[0][k] for k in ("hashseed", "line_length")},
                            "schedule_head": replicas[1]["schedule"][:12] if len(replicas) > 1 else []})
    # stored regressions / findings of this property (re-executed in every run)
    for t in stored_replays(prop):
        rc, sig_seen, _res = execute_replay_doc(t["doc"])
        if sig_seen:
            k = core.known_for(t["doc"]["expect_sig"], known)
            if k is None:
                new_sigs.setdefault(core.digest(t["doc"]["expect_sig"]), {"stored": t})
            else:
                known_hit.setdefault(k["id"], [k, 0])[1] += 1
    for k in known:
        if k["property"] != prop:
            continue
        if k["id"] in known_hit:
            lines.append("KNOWN-FINDING: property=%s %s [%s, seen %d times in this run]" % (prop, k["text"], k["id"], known_hit[k["id"]][1]))
        else:
            lines.append("NOTE: open finding %s of %s did not occur in this run: %s" % (k["id"], prop, k["text"][:100]))
    max_report = int(os.environ.get("DTSIM_MAX_REPORT", "6"))
    for sd, item in sorted(new_sigs.items())[:max_report]:
        if "stored" in item:
            lines.append("VIOLATION property=%s replay=%s" % (prop, item["stored"]["path"]))
            lines.append("  (a stored replay of a fixed defect reproduces again)")
            nviol += 1
            continue
        doc = minimise(prop, item)
        path = write_replay(prop, doc)
        p = subprocess.run([core.PYTHON, "-W", "ignore", core.LAUNCHER, "replay", path], env=core.worker_env(), cwd=core.VERIF, stdout=subprocess.PIPE, stderr=subprocess.PIPE, timeout=600)
        if not (p.returncode == EXIT_VIOLATION and b"REPRODUCED" in p.stdout):
            sys.stderr.write(p.stdout.decode(errors="replace")[-1500:] + p.stderr.decode(errors="replace")[-1500:])
            raise HarnessError("HARNESS-ERROR nonrepro: %s did not reproduce in a fresh interpreter" % path)
        lines.append("VIOLATION property=%s replay=%s" % (prop, path))
        lines.append("  signature: %s" % json.dumps(doc["expect_sig"], sort_keys=True))
        lines.append("  detail: %s" % doc["detail"])
        nviol += 1
    if len(new_sigs) > max_report:
        lines.append("  (%d further distinct violation signatures not minimised)" % (len(new_sigs) - max_report))
        nviol += len(new_sigs) - max_report
    wall = time.monotonic() - t0
    cells = set()
    cov = {
        "evaluations": stats["job_executions"],
        "distinct_nontrivial": len(stats["hashseeds"]) * 1 if prop != "C18" else len(stats["line_lengths"]),
        "rule": ("a seeded corpus of conversion jobs (partially documented functions, class+__init__ merges, two-hop conversions, docstrings, tiny syncs) is executed by N replicas = fresh "
                 "interpreters with scheduler-chosen PYTHONHASHSEED, each running its own permutation-with-repetition of the corpus in one process; an evaluation is one job execution; "
                 "distinct_nontrivial counts distinct (hash seed, schedule) replicas" if prop != "C18" else
                 "a seeded corpus of descriptions with short/medium/long summaries, prose and type strings is emitted by six emitters with word_wrap on and off and parsed back, inside "
                 "replicas started with scheduler-chosen DOCTRANS_LINE_LENGTH (unset and 40..200); an evaluation is one job execution (6 emitters x 2 modes); distinct_nontrivial "
                 "counts distinct line-length configurations"),
        "samples": samples,
        "replicas": stats["replicas"],
        "corpus_jobs": stats["jobs"],
        "distinct_hash_seeds": len(stats["hashseeds"]),
        "distinct_line_lengths": sorted(x for x in stats["line_lengths"] if x is not None) + (["unset"] if None in stats["line_lengths"] else []),
        "distinct_set_iteration_orders_realised": len(stats["set_orders"]),
        "violations_by_clause_including_known": stats["violations_by_clause"],
        "divergent_jobs_including_known": stats["divergent_jobs"],
        "known_findings_hit": {fid: n for fid, (_k, n) in known_hit.items()},
        "runs_per_hour": round(stats["replicas"] / wall * 3600) if wall else 0,
        "job_executions_per_hour": round(stats["job_executions"] / wall * 3600) if wall else 0,
        "simulated_time": "not applicable (no clock in doctrans)",
        "fault_kinds": "none injected by this engine; the controlled nondeterminism is the interpreter's hash seed, the process environment and the order/repetition of conversions",
        "real_components": ["doctrans (all modules)", "black", "ast", "inspect", "the CPython hash randomisation itself (chosen per replica through PYTHONHASHSEED)"],
        "simulated_components": ["'random' hash seeds are replaced by PRNG-drawn explicit values so that every run replays"],
        "exhaustive": False,
    }
    core.write_evidence(prop, tier, base, "exploration", cov, wall, nviol,
                        ["doctrans is imported from %s in every replica" % core.REPO, "replicas are fresh interpreters; PYTHONHASHSEED / DOCTRANS_LINE_LENGTH are set by the scheduler",
                         "C07 judges against inspect.signature of the definition executed inside the same replica; annotations are compared as source text",
                         "the harness' own renderer wrote the definitions and therefore knows which prose/type the docstring attaches to which parameter"])
    for ln in lines:
        print(ln)
    print("%s %s: %d replicas, %d job executions, %d hash seeds, %d set orders realised, %.1fs, %d violation signature(s), %d known finding(s)" % (
        prop, tier, stats["replicas"], stats["job_executions"], len(stats["hashseeds"]), len(stats["set_orders"]), wall, nviol, len(known_hit)))
    return EXIT_VIOLATION if nviol else EXIT_OK


# ------------------------------------------------------------------ replay / shrink
def stored_replays(prop):
    out = []
    for sub in ("regressions", "findings"):
        d = os.path.join(core.VERIF, sub)
        if not os.path.isdir(d):
            continue
        for name in sorted(os.listdir(d)):
            if name.endswith(".json"):
                with open(os.path.join(d, name)) as f:
                    doc = json.load(f)
                if doc.get("engine") == "replica" and doc.get("property") == prop:
                    out.append({"path": os.path.join(d, name), "doc": doc, "stored": sub})
    return out


def write_replay(prop, doc):
    d = os.path.join(core.VERIF, "replays")
    os.makedirs(d, exist_ok=True)
    path = os.path.join(d, "%s-%s-%s.json" % (prop, core.digest(doc["expect_sig"])[:10], doc.get("seed", 0)))
    doc["repo_tree_hash"] = core.repo_tree_hash()
    with open(path, "wt") as f:
        json.dump(doc, f, indent=1, sort_keys=True)
        f.write("\n")
    return path


def execute_replay_doc(doc):
    """Run the replicas of a replay document; returns (exit code, signature seen?)"""
    prop = doc["property"]
    results, _ = run_replicas(prop, doc["jobs"], doc["replicas"], want_payload=True)
    seen = False
    if doc["expect_sig"].get("oracle") == "D-divergence":
        div = compare_replicas(doc["jobs"], doc["replicas"], results)
        seen = any(d["job"] == doc["job_id"] for d in div)
    else:
        for rep in doc["replicas"]:
            for v in results[rep["rid"]]["violations"]:
                if v["sig"] == doc["expect_sig"]:
                    seen = True
    return (EXIT_VIOLATION if seen else EXIT_OK), seen, results


def minimise(prop, item):
    v = item["v"]
    job = item["job"]
    if prop == "C12" and "dv" in item:
        ra, rb = item["rep"], item["rep2"]
        # 1. does the single job alone differ under the two hash seeds?  (hash dependence)
        doc = {"property": prop, "engine": "replica", "expect_sig": v["sig"], "detail": v["detail"], "seed": item["seed"], "job_id": job["id"], "jobs": [job],
               "replicas": [{"rid": 0, "hashseed": ra["hashseed"], "line_length": None, "schedule": [job["id"]], "surroundings": ra.get("surroundings")},
                            {"rid": 1, "hashseed": rb["hashseed"], "line_length": None, "schedule": [job["id"]], "surroundings": rb.get("surroundings")}]}
        if execute_replay_doc(doc)[1]:
            doc["class"] = "process dependence: the job alone gives different output in the two processes (hash seed / surroundings)"
            return doc
        # 2. history dependence: one of the two occurrences differs from what the job gives on its own in a fresh
        #    process.  Find which, keep the prefix of that replica's schedule up to the occurrence, then ddmin it.
        jobs = item["jobs"]
        dv = item["dv"]

        def mk(rep, prefix):
            used = sorted(set(prefix) | {job["id"]})
            return {"property": prop, "engine": "replica", "expect_sig": v["sig"], "detail": v["detail"], "seed": item["seed"], "job_id": job["id"],
                    "jobs": [j for j in jobs if j["id"] in used],
                    "replicas": [{"rid": 0, "hashseed": rep["hashseed"], "line_length": None, "schedule": [job["id"]], "surroundings": rep.get("surroundings")},
                                 {"rid": 1, "hashseed": rep["hashseed"], "line_length": None, "schedule": prefix, "surroundings": rep.get("surroundings")}]}

        def prefix_upto(rep, occ_needed):
            cnt = -1
            for i, jid in enumerate(rep["schedule"]):
                if jid == job["id"]:
                    cnt += 1
                    if cnt == occ_needed:
                        return rep["schedule"][: i + 1]
            return list(rep["schedule"])

        chosen = None
        for rep, (_dig, _rid, occ) in ((rb, dv["other"]), (ra, dv["ref"])):
            pre = prefix_upto(rep, occ)
            if execute_replay_doc(mk(rep, pre))[1]:
                chosen = (rep, pre)
                break
        if chosen is None:
            doc = mk(rb, list(rb["schedule"]))
            doc["class"] = "history dependence (could not be reduced to one replica against a fresh process)"
            doc["replicas"] = [{"rid": 0, "hashseed": ra["hashseed"], "line_length": None, "schedule": list(ra["schedule"]), "surroundings": ra.get("surroundings")},
                               {"rid": 1, "hashseed": rb["hashseed"], "line_length": None, "schedule": list(rb["schedule"]), "surroundings": rb.get("surroundings")}]
            doc["jobs"] = jobs
            return doc
        rep, best = chosen
        # ddmin over the conversions that precede the divergent occurrence (the last element is the occurrence itself)
        head, last = best[:-1], best[-1:]
        attempts, gran = 0, 2
        while len(head) >= 1 and attempts < 48:
            chunk = max(1, len(head) // gran)
            reduced = False
            for start in range(0, len(head), chunk):
                cand = head[:start] + head[start + chunk:]
                attempts += 1
                if execute_replay_doc(mk(rep, cand + last))[1]:
                    head = cand
                    gran = max(gran - 1, 2)
                    reduced = True
                    break
                if attempts >= 48:
                    break
            if not reduced:
                if chunk == 1:
                    break
                gran = min(len(head), gran * 2)
        best = head + last
        doc = mk(rep, best)
        doc["class"] = "history dependence: the job gives a different output after the listed earlier conversions in the same process"
        return doc
    rep = item["rep"]
    doc = {"property": prop, "engine": "replica", "expect_sig": v["sig"], "detail": v["detail"], "seed": item["seed"], "job_id": job["id"], "jobs": [job],
           "replicas": [{"rid": 0, "hashseed": rep["hashseed"], "line_length": rep.get("line_length"), "schedule": [job["id"]]}]}
    if execute_replay_doc(doc)[1]:
        return doc
    # the job alone is fine: the violation depends on what ran before it in the same process
    jobs = item["jobs"]
    sched = rep["schedule"]
    first = sched.index(job["id"]) if job["id"] in sched else len(sched) - 1
    head, last = sched[:first], [job["id"]]

    def mk(prefix):
        used = set(prefix)
        return {"property": prop, "engine": "replica", "expect_sig": v["sig"], "detail": v["detail"], "seed": item["seed"], "job_id": job["id"],
                "jobs": [j for j in jobs if j["id"] in used],
                "replicas": [{"rid": 0, "hashseed": rep["hashseed"], "line_length": rep.get("line_length"), "schedule": prefix}],
                "class": "history dependence: the violation needs the listed earlier conversions in the same process"}

    if not execute_replay_doc(mk(head + last))[1]:
        return mk(list(sched))
    attempts, gran = 0, 2
    while head and attempts < 48:
        chunk = max(1, len(head) // gran)
        reduced = False
        for start in range(0, len(head), chunk):
            cand = head[:start] + head[start + chunk:]
            attempts += 1
            if execute_replay_doc(mk(cand + last))[1]:
                head, gran, reduced = cand, max(gran - 1, 2), True
                break
            if attempts >= 48:
                break
        if not reduced:
            if chunk == 1:
                break
            gran = min(len(head), gran * 2)
    return mk(head + last)


def replay(doc, path):
    rc, seen, results = execute_replay_doc(doc)
    print("replay %s: property=%s replicas=%s" % (path, doc["property"], [(r["hashseed"], r.get("line_length"), len(r["schedule"])) for r in doc["replicas"]]))
    for rep in doc["replicas"]:
        for jid, occ, dig, payload in results[rep["rid"]]["results"]:
            if jid == doc.get("job_id"):
                print("  replica %d (hashseed %s, line_length %s) job %d occurrence %d -> %s %s" % (rep["rid"], rep["hashseed"], rep.get("line_length"), jid, occ, dig, (payload or "")[:300]))
        for v in results[rep["rid"]]["violations"]:
            print("  replica %d violation %s: %s" % (rep["rid"], v["oracle"], v["detail"][:300]))
    if seen:
        print("REPRODUCED property=%s signature=%s" % (doc["property"], json.dumps(doc["expect_sig"], sort_keys=True)))
        print("VIOLATION property=%s replay=%s" % (doc["property"], path))
        return EXIT_VIOLATION
    print("NOT-REPRODUCED")
    return EXIT_OK
