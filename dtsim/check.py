"""Check driver: builds the task list of a property/tier, runs it on the worker pool,
classifies violations (known finding / new), shrinks and confirms new ones in a fresh
interpreter, writes the evidence file, and decides the exit code (DESIGN §2.6, §8)."""
import json
import os
import subprocess
import sys
import time

from dtsim import core
from dtsim.core import EXIT_HARNESS, EXIT_OK, EXIT_VIOLATION, HarnessError

PROJECT_PROPS = ("C20", "C10", "C09", "C11", "C14")
REPLICA_PROPS = ("C12", "C07", "C18")
ALIAS_PROPS = ("C13",)
LEVEL = {"C20": "fault_enumeration"}

ASSUMPTIONS_COMMON = [
    "doctrans is imported from the working tree of %s; black, ast, argparse and meta.asttools are the real ones" % core.REPO,
    "meta.asttools is imported with a two-step shim (its first import fails on CPython 3.12, DESIGN §1e)",
    "one integer (VERIF_SEED) decides every generated choice; workers run with PYTHONHASHSEED pinned (engine A/C: 0; engine B: scheduler-chosen)",
]
ASSUMPTIONS_PROJECT = [
    "the OS process boundary is simulated in-process (doctrans.__main__.main / API call, SystemExit captured, process-global state reset between simulated processes)",
    "file objects are proxies over real tmpfs files; SIGKILL is modelled as an I/O freeze plus loss of the user-space buffer (CPython buffer model by default, other sizes per run)",
    "ENOSPC/EIO/EACCES are raised by the seam, the disk is not actually full; power loss / page-cache loss is not modelled",
    "the independent resolver, renderer and name/order extractors of the harness are trusted",
]


def _budget(tier, default_quick, default_thorough):
    env = os.environ.get("DTSIM_BUDGET_S")
    if env:
        return float(env)
    return default_quick if tier == "quick" else default_thorough


def _merge_stats(total, s):
    for k, v in s.items():
        if k == "state_digests":
            total.setdefault("_states", set()).update(v)
            continue
        if isinstance(v, dict):
            d = total.setdefault(k, {})
            for kk, vv in v.items():
                d[kk] = d.get(kk, 0) + vv
        elif isinstance(v, (int, float)):
            total[k] = total.get(k, 0) + v


def scenario_summary(sc):
    ops = []
    for op in sc.get("ops", []):
        if op["op"] == "env_transform":
            ops.append("env_transform:%s(%s)" % (op["how"], op["path"]))
        elif op["op"] == "env":
            ops.append("env:%s(%s)" % (op.get("label"), op["path"]))
        elif op["op"] == "sync":
            s = "sync[truth=%s,kinds=%s,via=%s]" % (op["truth"], "+".join(sorted(op["targets"])), op.get("via"))
            if op.get("fault"):
                s += " FAULT%s" % json.dumps(op["fault"], sort_keys=True)
            ops.append(s)
        elif op["op"] == "cli":
            ops.append("cli[%s expect=%s]" % (op.get("why"), op.get("expect")))
        else:
            s = "%s%s" % (op["op"], json.dumps({k: v for k, v in op.items() if k in ("pairs", "wrap", "eval", "type", "via")}, sort_keys=True))
            if op.get("fault"):
                s += " FAULT%s" % json.dumps(op["fault"], sort_keys=True)
            ops.append(s)
    return {"seed": sc.get("seed"), "knobs": sc.get("knobs"), "initial_files": sorted(sc.get("files", {})), "ops": ops}


# ------------------------------------------------------------------ replay handling
def write_replay(prop, sig, scenario, detail, engine, extra=None):
    d = os.path.join(core.VERIF, "replays")
    os.makedirs(d, exist_ok=True)
    name = "%s-%s-%s.json" % (prop, core.digest(sig)[:10], scenario.get("seed", 0))
    path = os.path.join(d, name)
    doc = {"property": prop, "engine": engine, "expect_sig": sig, "detail": detail, "scenario": scenario,
           "repo_tree_hash": core.repo_tree_hash()}
    if extra:
        doc.update(extra)
    with open(path, "wt") as f:
        json.dump(doc, f, indent=1, sort_keys=True)
        f.write("\n")
    return path


def confirm_replay(path):
    """Re-execute the replay file in a fresh interpreter; True iff it reproduces the expected signature."""
    p = subprocess.run([core.PYTHON, "-W", "ignore", core.LAUNCHER, "replay", path], env=core.worker_env(), cwd=core.VERIF,
                       stdout=subprocess.PIPE, stderr=subprocess.PIPE, timeout=300)
    return p.returncode == EXIT_VIOLATION and b"REPRODUCED" in p.stdout, p


# ------------------------------------------------------------------------- project
def project_tasks(prop, tier, base):
    tasks = []
    if tier == "quick":
        n_hist = {"C20": 2500, "C10": 4000, "C09": 4000, "C11": 4000, "C14": 8000}[prop]
        n_enum = 160 if prop == "C20" else 0
    else:
        n_hist = {"C20": 60000, "C10": 150000, "C09": 150000, "C11": 150000, "C14": 150000}[prop]
        n_enum = 4000 if prop == "C20" else 0
    if "DTSIM_RUNS" in os.environ:
        n_hist = int(os.environ["DTSIM_RUNS"])
        n_enum = min(n_enum, n_hist // 8)
    i = 0
    for k in range(n_enum):
        tasks.append({"tid": "e%d" % k, "kind": "enum", "seed": core.run_seed(base, 500000 + k), "focus": "C20"})
    if prop == "C20":
        for k in range(2 if tier == "quick" else 8):
            tasks.append({"tid": "t%d" % k, "kind": "table", "seed": core.run_seed(base, 900000 + k)})
        if tier == "quick":
            # a seeded sample of the 12288-row presence-pattern table of `sync` (the thorough tier enumerates it)
            for k in range(12):
                tasks.append({"tid": "q%d" % k, "kind": "patterns", "seed": core.run_seed(base, 910000 + k), "sample": 40})
        else:
            from dtsim import gen_project as _gp

            n = _gp.N_PATTERNS
            step = 192
            for k, lo in enumerate(range(0, n, step)):
                tasks.append({"tid": "q%d" % k, "kind": "patterns", "seed": core.run_seed(base, 910000), "lo": lo, "hi": min(n, lo + step)})
    for k in range(n_hist):
        t = {"tid": "h%d" % k, "kind": "gen", "seed": core.run_seed(base, k), "focus": prop}
        if k % 5 == 4:
            t["opt"] = 1  # this run happens in an interpreter started with PYTHONOPTIMIZE=1 (asserts compiled away)
        tasks.append(t)
    tasks = stored_tasks(prop, "project") + tasks
    return tasks


def stored_tasks(prop, engine):
    """Replays of fixed defects (regressions/) and of open findings (findings/) of this property are re-executed
    in every run: a fixed defect that returns is reported like any new violation."""
    out = []
    for sub, pre in (("regressions", "r"), ("findings", "f")):
        d = os.path.join(core.VERIF, sub)
        if not os.path.isdir(d):
            continue
        for name in sorted(os.listdir(d)):
            if not name.endswith(".json"):
                continue
            with open(os.path.join(d, name)) as f:
                doc = json.load(f)
            if doc.get("engine", "project") != engine or doc.get("property") != prop:
                continue
            t = {"tid": "%s:%s" % (pre, name[:-5]), "kind": "scenario", "scenario": doc["scenario"], "stored": sub, "expect_sig": doc.get("expect_sig")}
            if doc["scenario"].get("knobs", {}).get("optimize"):
                t["opt"] = 1
            out.append(t)
    return out


def run_project_check(prop, tier):
    t0 = time.monotonic()
    base = core.base_seed()
    known = core.load_known()
    tasks = project_tasks(prop, tier, base)
    # determinism probe: the first few history tasks are executed twice (in whichever workers get them)
    probes = [dict(t, tid="p" + t["tid"]) for t in tasks if t["kind"] in ("gen", "enum")][-6:] + \
             [dict(t, tid="p" + t["tid"]) for t in tasks if t["kind"] == "enum"][:2]
    budget = _budget(tier, 420.0, 900.0)
    normal = [t for t in tasks + probes if not t.get("opt")]
    optim = [t for t in tasks + probes if t.get("opt")]
    results, pstats = core.run_pool("project", normal, task_timeout=240.0, budget_s=budget)
    if optim:
        # the same code under `python -O`: a deployment configuration in which every `assert` is compiled away
        r2, p2 = core.run_pool("project", optim, task_timeout=240.0, budget_s=budget, env=core.worker_env(extra={"PYTHONOPTIMIZE": "1"}))
        results.update(r2)
        pstats["skipped"] = pstats.get("skipped", 0) + p2.get("skipped", 0)
        pstats["optimized_runs"] = len(r2)
    for r in results.values():
        if "harness_error" in r:
            raise HarnessError("task %s: %s" % (r["tid"], r["harness_error"]))
    nondet = []
    probe_pairs = 0
    for p in probes:
        a, b = results.get(p["tid"]), results.get(p["tid"][1:])
        if a is not None and b is not None:
            probe_pairs += 1
            if a["digest"] != b["digest"]:
                nondet.append("task %s gave different history digests in two executions" % p["tid"][1:])
    stats = {}
    mine, other = [], 0
    nruns = 0
    samples = []
    for t in tasks:
        r = results.get(t["tid"])
        if r is None:
            continue
        nruns += 1
        _merge_stats(stats, r.get("stats", {}))
        for v in r["violations"]:
            if v["property"] == prop:
                v["_task"] = t
                mine.append(v)
            else:
                other += 1
        if len(samples) < 3 and r.get("summary"):
            samples.append(r["summary"])
    # ---- classify
    by_sig = {}
    for v in mine:
        by_sig.setdefault(core.digest(v["sig"]), []).append(v)
    known_hit = {}
    new = []
    for sd, vs in sorted(by_sig.items()):
        k = core.known_for(vs[0]["sig"], known)
        if k is not None:
            known_hit.setdefault(k["id"], [k, 0])
            known_hit[k["id"]][1] += len(vs)
        else:
            new.append(vs)
    lines = []
    for k in known:
        if k["property"] != prop:
            continue
        if k["id"] in known_hit:
            lines.append("KNOWN-FINDING: property=%s %s [%s, seen %d times in this run]" % (prop, k["text"], k["id"], known_hit[k["id"]][1]))
        else:
            lines.append("NOTE: open finding %s of %s did not occur in this run (stale entry or changed tree): %s" % (k["id"], prop, k["text"][:100]))
    # ---- shrink + confirm the new ones (bounded: the first few distinct signatures)
    nviol = 0
    max_report = int(os.environ.get("DTSIM_MAX_REPORT", "6"))
    shrink_tasks = []
    for vs in new[:max_report]:
        v = vs[0]
        shrink_tasks.append({"tid": "s%d" % len(shrink_tasks), "kind": "shrink", "task": v["_task"], "sig": v["sig"], "fault": v.get("fault"),
                             "_deadline": 200})
    if shrink_tasks:
        sres = {}
        for opt in (0, 1):
            sub = [t for t in shrink_tasks if bool(t["task"].get("opt")) == bool(opt)]
            if sub:
                r, _ = core.run_pool("project", sub, task_timeout=260.0, env=core.worker_env(extra={"PYTHONOPTIMIZE": "1"} if opt else None))
                sres.update(r)
        for st in shrink_tasks:
            r = sres[st["tid"]]
            if "harness_error" in r:
                raise HarnessError("shrink %s: %s" % (st["tid"], r["harness_error"]))
            path = write_replay(prop, st["sig"], r["scenario"], r["detail"], "project", {"shrink_attempts": r["attempts"]})
            ok, proc = confirm_replay(path)
            if not ok:
                sys.stderr.write(proc.stdout.decode(errors="replace")[-1500:] + proc.stderr.decode(errors="replace")[-1500:])
                raise HarnessError("HARNESS-ERROR nonrepro: violation %s did not reproduce in a fresh interpreter (%s)" % (json.dumps(st["sig"], sort_keys=True), path))
            lines.append("VIOLATION property=%s replay=%s" % (prop, path))
            lines.append("  signature: %s" % json.dumps(st["sig"], sort_keys=True))
            lines.append("  detail: %s" % r["detail"])
            nviol += 1
    if len(new) > max_report:
        lines.append("  (%d further distinct violation signatures not minimised; rerun after fixing the above)" % (len(new) - max_report))
        nviol += len(new) - max_report
    if stats.get("twin_nondeterministic"):
        nondet.append("%d operation(s) behaved differently when executed twice on the same project in one process" % stats["twin_nondeterministic"])
    if nondet and not nviol:
        # state that outlives an operation makes the twin oracle meaningless: never report such a batch as a pass
        raise HarnessError("nondeterministic execution (state leaks between operations of one process?): " + "; ".join(nondet))
    for msg in nondet:
        lines.append("NOTE: %s (violations above were each confirmed by replaying them in a fresh interpreter)" % msg)
    fid = None
    if prop == "C20":
        # fidelity tier: the in-process kill model against real SIGKILL of real child interpreters (DESIGN §2.2, §11.7)
        from dtsim import selftest

        import contextlib
        import io

        buf = io.StringIO()
        with contextlib.redirect_stdout(buf):
            frc, fid = selftest.fidelity(12 if tier == "quick" else 300)
        if frc:
            raise HarnessError("fidelity tier: the in-process kill model disagrees with a real SIGKILL: %s" % buf.getvalue()[-800:])
    wall = time.monotonic() - t0
    cov = project_coverage(prop, tier, stats, nruns, other, samples, pstats, wall, known_hit)
    cov["determinism_probe"] = {"tasks_executed_twice_in_this_batch": probe_pairs, "history_digest_mismatches": len([m for m in nondet if m.startswith("task ")]),
                                "operations_executed_twice_on_the_same_project": stats.get("twin_checks", 0), "of_which_differed": stats.get("twin_nondeterministic", 0)}
    if fid:
        cov["fidelity_tier_real_sigkill"] = fid
    core.write_evidence(prop, tier, base, LEVEL.get(prop, "exploration"), cov, wall, nviol, ASSUMPTIONS_COMMON + ASSUMPTIONS_PROJECT)
    for ln in lines:
        print(ln)
    print("%s %s: %d runs, %d ops, %d seam events, %d steps, %d faults fired, %.1fs, %d violation signature(s), %d known finding(s)" % (
        prop, tier, nruns, stats.get("ops", 0), stats.get("events", 0), stats.get("steps", 0), sum(stats.get("faults_fired", {}).values()), wall, nviol, len(known_hit)))
    return EXIT_VIOLATION if nviol else EXIT_OK


def project_coverage(prop, tier, stats, nruns, other, samples, pstats, wall, known_hit):
    cells_key = {"C20": "c20_cells", "C10": "prestate_cells", "C09": "prestate_cells", "C11": "c11_cells", "C14": "sp_cells"}[prop]
    cells = stats.get(cells_key, {})
    if prop == "C20":
        cells = dict(cells)
        for k, v in stats.get("cli_cells", {}).items():
            cells["cli|" + k] = v
        evaluations = sum(stats.get("faults_fired", {}).values()) + sum(stats.get("cli_cells", {}).values())
        rule = ("quick: for each of N generated base scenarios, EVERY I/O and conversion seam event of the operation under test x every fault kind applicable "
                "to that event (one-shot and persistent IOERR with 4 prefix cuts at writes, KILL with 3 cuts, INTERRUPT, ALLOC, CONVERT) plus 24 step indices x {INTERRUPT, ALLOC, KILL}; "
                "plus seeded random histories (<=7 ops) with faults attached to operations, plus the invocation table (13 rows, a seeded sample - thorough: all - of the 12288 presence "
                "patterns of the sync options, spelling rows for gen). A fifth of the runs execute under python -O. An evaluation is one fault that FIRED "
                "(or one invocation-table row); a cell is (op kind, target kind, write path create|append|replace, fault kind@seam, write in flight?) for files named "
                "on the command line; distinct_nontrivial counts distinct cells in which the fault fired.")
    elif prop in ("C10", "C09"):
        evaluations = stats.get("sync_ops", 0)
        rule = ("seeded random histories (<=7 doctrans ops plus environment actions: edit_truth, perturb to missing/empty/absent/stale/agree, add_unrelated) "
                "biased to %s; an evaluation is one fault-free sync whose oracles ran; a cell is (truth kind, target kind, target pre-state, api|cli); "
                "distinct_nontrivial counts distinct cells reached." % ("repeated/alternating syncs" if prop == "C10" else "recovery after faults and perturbations"))
    elif prop == "C11":
        evaluations = stats.get("c11_checked", 0)
        rule = ("seeded random histories over projects whose target files carry 0-4 unrelated statements (imports, constants, helpers and classes colliding "
                "with the target's parameter/method names, nested classes) before/after the named definition, with/without trailing newline; an evaluation is "
                "one rewritten target file compared statement-by-statement; a cell is (target kind, write path, #statements before, #after).")
    else:
        evaluations = stats.get("sp_ops", 0)
        rule = ("seeded random histories with sync_properties operations over a generated input/output module pair (module assignment, class attribute, "
                "function/method argument, keyword-only argument; 1-3 pairs; wrap on/off; eval on/off; 15% unresolvable addresses); an evaluation is one "
                "fault-free sync_properties; a cell is (output address kinds, input node kinds, #pairs, wrap, eval).")
    cov = {
        "evaluations": int(max(evaluations, 0)),
        "distinct_nontrivial": len(cells),
        "rule": rule,
        "samples": samples or [{"note": "no sample recorded"}],
        "runs": nruns,
        "runs_per_hour": round(nruns / wall * 3600) if wall > 0 else 0,
        "seeds_per_hour": round(nruns / wall * 3600) if wall > 0 else 0,
        "simulated_time": "not applicable: doctrans has no clock; simulated steps and seam events are reported instead",
        "simulated_ops": stats.get("ops", 0),
        "simulated_seam_events": stats.get("events", 0),
        "simulated_steps": stats.get("steps", 0),
        "faults_fired_by_kind_and_seam": stats.get("faults_fired", {}),
        "faults_fired_with_write_in_flight": stats.get("faults_with_write_in_flight", 0),
        "faults_planned_but_not_fired": stats.get("faults_not_fired", 0),
        "fault_sequences": {"planned": stats.get("fault_sequences_planned", 0), "second_fault_fired": stats.get("second_faults_fired", 0),
                            "note": "a second fault fires only if the code writes again after the first one (an error handler, a retry)"},
        "cells": cells,
        "prestate_cells": stats.get("prestate_cells", {}),
        "probes": {k: stats.get(k, 0) for k in ("r3_checked", "r4_checked", "a2_checked", "c11_checked", "sp_checked", "twin_checks", "gen_ops",
                                                "stray_after_kill_tolerated", "stdout_lines_unrecognised", "a3_checked", "a3_skipped_lossy_in_memory",
                                                "c11_body_carried_checked", "intermediate_complete_state_accepted", "swallowed_faults_checked", "a2_prose_checked")},
        "a3_interface_checks": stats.get("a3", {}),
        "distinct_project_states_reached": len(stats.get("_states", ())),
        "reach_probes": stats.get("reach", {}),
        "invocation_table_rows": stats.get("table_rows", 0),
        "ended_by_other_property": other,
        "known_findings_hit": {fid: n for fid, (_k, n) in known_hit.items()},
        "workers": pstats.get("workers"),
        "runs_under_python_O": pstats.get("optimized_runs", 0),
        "tasks_skipped_by_budget": pstats.get("skipped"),
        "real_components": ["doctrans (all modules)", "black", "ast", "argparse", "meta.asttools.cmp_ast", "tmpfs files",
                            "freshly started interpreters (own PYTHONHASHSEED) for every sync of 5% (C10) or 2% (other properties) of the histories, see reach_probes"],
        "simulated_components": ["OS process boundary", "file objects (proxy)", "Ctrl-C / MemoryError (raised from the step seam)", "SIGKILL (I/O freeze + buffer loss)",
                                 "ENOSPC/EIO/EACCES (raised by the seam)", "the user/editor (scripted environment actions)"],
        "exhaustive": False,
    }
    return cov


# ---------------------------------------------------------------------------- main
def run_check(prop, tier):
    try:
        if prop in PROJECT_PROPS:
            return run_project_check(prop, tier)
        if prop in REPLICA_PROPS:
            from dtsim import engine_replica

            return engine_replica.run_check(prop, tier)
        if prop in ALIAS_PROPS:
            from dtsim import engine_alias

            return engine_alias.run_check(prop, tier)
        print("unknown or not-applicable property %s" % prop)
        return EXIT_HARNESS
    except HarnessError as e:
        print("HARNESS-ERROR %s" % e)
        return EXIT_HARNESS
    except subprocess.TimeoutExpired as e:
        print("HARNESS-ERROR timeout %s" % e)
        return EXIT_HARNESS


def replay(path):
    with open(path) as f:
        doc = json.load(f)
    engine = doc.get("engine", "project")
    if engine == "project" and doc["scenario"].get("knobs", {}).get("optimize") and not sys.flags.optimize:
        # this history was found in an interpreter running with PYTHONOPTIMIZE=1: replay it the same way
        env = dict(os.environ, PYTHONOPTIMIZE="1")
        os.execve(sys.executable, [sys.executable, "-W", "ignore", core.LAUNCHER, "replay", path], env)
    if engine == "project":
        from dtsim import engine_project, shrink

        r = engine_project.execute(doc["scenario"], want_trace=True)
        v = shrink.has_sig(r, doc["expect_sig"])
        print("replay %s: property=%s digest=%s" % (path, doc["property"], r["digest"]))
        for t in r["trace"]:
            print("  op %s" % json.dumps({k: t[k] for k in t if k in ("i", "op", "status", "exc", "site", "label", "path", "violations", "fault")}, sort_keys=True, default=str)[:400])
        if v is not None:
            print("REPRODUCED property=%s signature=%s" % (doc["property"], json.dumps(doc["expect_sig"], sort_keys=True)))
            print("  detail: %s" % v["detail"])
            print("VIOLATION property=%s replay=%s" % (doc["property"], path))
            return EXIT_VIOLATION
        print("NOT-REPRODUCED (the expected signature did not occur; other violations: %s)" % [(x["property"], x["oracle"]) for x in r["violations"]])
        return EXIT_OK
    if engine == "replica":
        from dtsim import engine_replica

        return engine_replica.replay(doc, path)
    if engine == "alias":
        from dtsim import engine_alias

        return engine_alias.replay(doc, path)
    print("unknown engine %r" % engine)
    return EXIT_HARNESS


COARSE_KEYS = ("property", "oracle", "op", "target_kind", "pre_state", "write", "fault", "seam", "left", "exc", "site", "sub", "why", "combos", "combo", "eval", "wrap", "says", "grew", "gen_type")


def survey(prop, n="400"):
    """Developer tool: run n histories with focus `prop` and tabulate the violation classes no known finding matches."""
    base = core.base_seed()
    known = core.load_known()
    tasks = [{"tid": "h%d" % k, "kind": "gen", "seed": core.run_seed(base, k), "focus": prop} for k in range(int(n))]
    results, _ = core.run_pool("project", tasks, task_timeout=240.0)
    table = {}
    for t in tasks:
        r = results[t["tid"]]
        if "harness_error" in r:
            print("HARNESS", t["seed"], r["harness_error"][:300])
            continue
        for v in r["violations"]:
            if v["property"] != prop:
                continue
            k = core.known_for(v["sig"], known)
            key = ("KNOWN " + k["id"]) if k else json.dumps({kk: v["sig"][kk] for kk in COARSE_KEYS if kk in v["sig"]}, sort_keys=True)
            e = table.setdefault(key, [0, t["seed"], v["detail"]])
            e[0] += 1
    for key, (cnt, seed, detail) in sorted(table.items()):
        print("%5d seed=%d %s\n        %s" % (cnt, seed, key, detail[:220]))
    return 0


def hunt(focus, seed, substr=""):
    """Developer tool: generate the scenario of (focus, seed), take its first violation whose signature or detail
    contains `substr`, minimise it and write the replay file."""
    from dtsim import engine_project, gen_project, shrink

    engine_project.setup()
    sc = gen_project.gen_scenario(int(seed), focus)
    r = engine_project.execute(sc, want_trace=True)
    for rec in r["trace"]:
        if rec.get("fault") and rec["fault"].get("plan"):
            sc["ops"][rec["i"]]["fault"] = rec["fault"]["plan"]
    for v in r["violations"]:
        hay = v["detail"] + " " + json.dumps(v["sig"], sort_keys=True)
        if all(part in hay for part in substr.split("&&")):
            small, attempts = shrink.shrink_project(engine_project.execute, sc, v["sig"], max_attempts=400, max_seconds=90)
            vv = shrink.has_sig(engine_project.execute(small), v["sig"])
            path = write_replay(v["property"], v["sig"], small, vv["detail"], "project", {"shrink_attempts": attempts})
            print(path)
            print(json.dumps(v["sig"], sort_keys=True))
            print(vv["detail"])
            return 0
    print("no matching violation; have: %s" % [(v["property"], v["oracle"]) for v in r["violations"]])
    return 1


# -------------------------------------------------------------------------- worker
def project_worker(task):
    from dtsim import engine_project, gen_project, shrink

    kind = task["kind"]
    want_opt = bool(task.get("opt") or (task.get("task") or {}).get("opt"))
    if want_opt != bool(sys.flags.optimize):
        raise HarnessError("task %s wants optimize=%s but the worker runs with sys.flags.optimize=%s" % (task.get("tid"), want_opt, sys.flags.optimize))
    if kind == "gen":
        sc = gen_project.gen_scenario(task["seed"], task["focus"])
        if want_opt:
            sc["knobs"]["optimize"] = 1
        r = engine_project.execute(sc)
        return {"violations": r["violations"], "digest": r["digest"], "stats": r["stats"], "summary": scenario_summary(sc) if task["tid"] in ("h0", "h1", "h2") else None}
    if kind == "enum":
        sc = enum_base(task["seed"])
        if sc is None:
            return {"violations": [], "digest": "none", "stats": {"enum_skipped_no_op": 1}, "summary": None}
        r = engine_project.execute_enum(sc)
        s = scenario_summary(sc)
        s["enumerated_faults"] = r["nfaults"]
        return {"violations": r["violations"], "digest": r["digest"], "stats": r["stats"], "summary": s if task["tid"] in ("e0", "e1") else None}
    if kind == "table":
        sc = table_scenario(task["seed"])
        r = engine_project.execute(sc)
        return {"violations": r["violations"], "digest": r["digest"], "stats": r["stats"], "summary": None}
    if kind == "patterns":
        sc = pattern_scenario(task["seed"], task.get("lo", 0), task.get("hi", 0), task.get("sample"))
        r = engine_project.execute(sc)
        r["stats"]["table_rows"] = sum(1 for o in sc["ops"] if o["op"] == "cli")
        return {"violations": r["violations"], "digest": r["digest"], "stats": r["stats"], "summary": None}
    if kind == "scenario":
        r = engine_project.execute(task["scenario"])
        return {"violations": r["violations"], "digest": r["digest"], "stats": r["stats"]}
    if kind == "shrink":
        t = task["task"]
        if t["kind"] == "gen":
            sc = gen_project.gen_scenario(t["seed"], t["focus"])
            if want_opt:
                sc["knobs"]["optimize"] = 1
        elif t["kind"] == "enum":
            sc = enum_base(t["seed"])
            sc["ops"][-1]["fault"] = task["fault"]
        elif t["kind"] == "table":
            sc = table_scenario(t["seed"])
        elif t["kind"] == "patterns":
            sc = pattern_scenario(t["seed"], t.get("lo", 0), t.get("hi", 0), t.get("sample"))
        else:
            sc = t["scenario"]
        # concretise relative fault addresses first
        r = engine_project.execute(sc, want_trace=True)
        for rec in r["trace"]:
            if rec.get("fault") and rec["fault"].get("plan"):
                sc["ops"][rec["i"]]["fault"] = rec["fault"]["plan"]
        small, attempts = shrink.shrink_project(engine_project.execute, sc, task["sig"])
        rr = engine_project.execute(small)
        v = shrink.has_sig(rr, task["sig"])
        if v is None:
            small = sc
            rr = engine_project.execute(small)
            v = shrink.has_sig(rr, task["sig"])
        return {"scenario": small, "attempts": attempts, "detail": v["detail"] if v else "(signature not reproduced by the generating task)"}
    raise HarnessError("unknown task kind %r" % kind)


def enum_base(seed):
    """A base scenario for fault enumeration: a generated history cut after its first doctrans operation that
    performs a write in the fault-free run (falls back to the first doctrans op); no faults in the prefix."""
    from dtsim import gen_project

    sc = gen_project.gen_scenario(seed, "C20")
    ops = []
    for op in sc["ops"]:
        op = dict(op)
        op.pop("fault", None)
        ops.append(op)
        if op["op"] in ("sync", "sync_properties", "gen"):
            break
    sc["ops"] = ops
    sc["knobs"].pop("processes", None)  # (one interpreter start per enumerated fault would cost minutes)
    sc["twin_check"] = []
    if not ops or ops[-1]["op"] not in ("sync", "sync_properties", "gen"):
        return None  # this history has no doctrans operation to enumerate faults over
    return sc


def table_scenario(seed):
    """All rows of the invocation table over one generated project."""
    from dtsim import gen_project
    from dtsim.core import Chooser

    ch = Chooser(seed)
    proj = gen_project.Project(ch, "C20")
    ops = []
    rows = ["no_truth_file_opt", "one_file", "truth_missing", "sp_input_missing", "sp_output_missing", "gen_output_exists",
            "files_without_names", "names_without_files", "two_files_one_kind", "sp_unequal_params", "name_twice", "version", "no_command"]
    for i, row in enumerate(rows):
        pre, op = gen_project.cli_row(proj, ch, "row%d" % i, row)
        ops += pre + [op]
    return {"engine": "project", "seed": seed, "focus": "C20", "knobs": {"bufsize": 8192, "path_style": "abs"}, "files": {}, "ops": ops,
            "max_violations": 100}


def pattern_scenario(seed, lo, hi, sample=None):
    """A slice [lo, hi) of the full `sync` presence-pattern table (or a seeded sample of it) over one generated project."""
    from dtsim import gen_project
    from dtsim.core import Chooser

    ch = Chooser(seed)
    proj = gen_project.Project(ch, "C20")
    # the table is about argument combinations, not about conversion fidelity: a plain description without return entry
    proj.versions[0]["returns"] = None
    if sample:
        pats = sorted(Chooser(seed).fork("patterns").sample("rows", list(range(gen_project.N_PATTERNS)), sample))
    else:
        pats = list(range(lo, hi))
    ops = gen_project.sync_pattern_rows(proj, pats)
    if lo == 0:
        ops += gen_project.other_table_rows(proj)
    return {"engine": "project", "seed": seed, "focus": "C20", "knobs": {"bufsize": 8192, "path_style": "abs"}, "files": {}, "ops": ops,
            "max_violations": 200}
