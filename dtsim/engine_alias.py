"""Engine C - shared-object (aliasing) simulator (DESIGN §5): C13.

State: one shared IR `S` (parsed from generated source, so that S["_internal"]["body"] aliases the parsed
tree) and one shared AST `T`.  Histories: sequences of emit/parse calls on S and T.  Reference model: the
same call on a pristine deep copy taken before the history starts.  Oracle: result k of the history equals
the reference result of the same call.  All sequences of length <= 3 are enumerated per description
(complete for that length); length 4 is sampled by seed.
"""
import ast
import copy
import itertools
import json
import os
import subprocess
import sys
import time

from dtsim import core, render
from dtsim.core import EXIT_HARNESS, EXIT_OK, EXIT_VIOLATION, Chooser, HarnessError
from dtsim.engine_replica import canon_ir

_ns = None


_proc = None


def setup():
    global _ns, _proc
    if _ns is None:
        from dtsim import fs

        _ns = core.load_doctrans()
        _proc = fs.ProcState()
    return _ns


def clone(value):
    """A deep copy of the shared state that shares nothing but leaves which cannot be copied (a description parsed from
    a live function holds the live default values: an open stream, a lock, a module)."""
    try:
        return copy.deepcopy(value)
    except TypeError:
        pass
    if isinstance(value, dict):
        return type(value)((k, clone(v)) for k, v in value.items())
    if type(value) in (list, tuple):
        return type(value)(clone(v) for v in value)
    return value


def _fresh():
    """Return the doctrans package to its import-time state (caches, module-level containers): every history starts
    in a process that has done nothing yet."""
    if _proc is not None:
        _proc.restore_baseline()


# ------------------------------------------------------------------------- alphabet
def _code(node):
    return _ns.st.to_code(node)


def _ops():
    ns = _ns
    e, p = ns.emit, ns.parse

    def parse_tree(tree):
        node = tree.body[0]
        if isinstance(node, ast.ClassDef):
            return canon_ir(p.class_(node))
        if any(isinstance(s, ast.Expr) and isinstance(getattr(s, "value", None), ast.Call) and getattr(s.value.func, "attr", "") == "add_argument" for s in node.body):
            return canon_ir(p.argparse_ast(node))
        return canon_ir(p.function(node))

    def parse_tree_merge(tree):
        node = tree.body[0]
        if isinstance(node, ast.ClassDef):
            return canon_ir(p.class_(node, merge_inner_function="__init__"))
        return canon_ir(p.function(node))

    def find(T):
        node = T.body[0]
        name = node.name
        r = ns.ast_utils.find_in_ast([name], T)
        out = [None if r is None else type(r).__name__]
        if isinstance(node, ast.FunctionDef) and node.args.args:
            a = node.args.args[-1].arg
            r2 = ns.ast_utils.find_in_ast([name, a], T)
            out.append(None if r2 is None else [type(r2).__name__, getattr(r2, "arg", None), ast.dump(r2.default) if getattr(r2, "default", None) is not None else None])
        return out

    def composite(S, T, U):
        # what conformance.ground_truth does with one gold_ir: argparse, class, function in turn
        return [_code(e.argparse_function(S)), _code(e.class_(S)), _code(e.function(S, function_name="f", function_type="static"))]

    return [
        ("emit.class_", lambda S, T, U: _code(e.class_(S))),
        # (some calls pass the description by its documented keyword: how an argument is passed must not matter)
        ("emit.class_call", lambda S, T, U: _code(e.class_(intermediate_repr=S, emit_call=True, class_name="K"))),
        ("emit.class_docs", lambda S, T, U: _code(e.class_(S, emit_default_doc=True, class_name="D"))),
        ("emit.function", lambda S, T, U: _code(e.function(S, function_name="f", function_type="static"))),
        ("emit.function_docs", lambda S, T, U: _code(e.function(intermediate_repr=S, function_name="g", function_type="self", inline_types=False, emit_as_kwonlyargs=False, emit_default_doc=True))),
        # under the IR's own name and type, so that a carried body is re-emitted (get_internal_body matches on them)
        ("emit.function_same", lambda S, T, U: _code(e.function(S, function_name=None, function_type=None))),
        ("emit.argparse_same", lambda S, T, U: _code(e.argparse_function(S, function_name=None, function_type=None))),
        ("emit.argparse", lambda S, T, U: _code(e.argparse_function(S))),
        ("emit.argparse_doc", lambda S, T, U: _code(e.argparse_function(intermediate_repr=S, emit_default_doc=True, function_name="h"))),
        ("emit.docstring_rest", lambda S, T, U: e.docstring(S, docstring_format="rest")),
        ("emit.docstring_numpydoc", lambda S, T, U: e.docstring(intermediate_repr=S, docstring_format="numpydoc", emit_default_doc=False)),
        ("emit.docstring_google", lambda S, T, U: e.docstring(S, docstring_format="google")),
        ("sync.composite", composite),
        # T: the tree S was parsed from (its body statements are shared with S["_internal"]["body"])
        ("parse.T", lambda S, T, U: parse_tree(T)),
        ("to_code.T", lambda S, T, U: _code(T)),
        # U: a second tree of the same source that nothing has touched yet (what a parser does to a tree it sees first)
        ("parse.U", lambda S, T, U: parse_tree(U)),
        ("parse.U_merge", lambda S, T, U: parse_tree_merge(U)),
        ("find_in_ast.U", lambda S, T, U: find(U)),
        ("annotate_ancestry.U", lambda S, T, U: ast.dump(ns.ast_utils.annotate_ancestry(U))),
        ("to_code.U", lambda S, T, U: _code(U)),
    ]


# ------------------------------------------------------------------- shared state
def make_state(seed):
    """(scenario dict) a generated definition; S is parsed from it so that carried bodies alias T."""
    ch = Chooser(seed)
    desc = render.gen_desc(ch, "conservative", 1, 4, "d")
    if ch.chance("untyped", 0.35):
        # a parameter about which nothing but its name (and prose) is known
        desc["params"][0]["typ"] = None
        desc["params"][0]["default"] = None
    kind = ch.weighted("kind", [("function", 3), ("method_in_class", 1), ("class", 4), ("argparse", 2), ("live_function", 1)])
    with_ret = ch.chance("ret", 0.5)
    with_body = ch.chance("body", 0.6 if kind != "class" else 0.3)
    if with_ret and desc["params"] and ch.chance("retexpr", 0.6):
        # a compound default expression that names a parameter (emit.class_(emit_call=True) rewrites such names to self.<name>)
        p0 = desc["params"][0]["name"]
        desc["returns"] = {"typ": "int", "doc": "the scaled value", "default": {"code": "%s * 2" % p0}}
    elif with_ret:
        desc["returns"] = {"typ": "Tuple[int, int]", "doc": "the resulting pair" + (". Defaults to (0, 1)" if ch.chance("retdoc", 0.5) else ""), "default": {"code": "(0, 1)"}}
    else:
        desc["returns"] = None
    body = ["total = %s" % (desc["params"][0]["name"] if desc["params"] else "0"), "print(total)"] if with_body else None
    if kind == "function":
        src = render.render_function(desc, "train", body=body, inline_types=ch.chance("inl", 0.6))
    elif kind == "live_function":
        # a function held in memory, one of whose defaults is a live object that cannot be deep-copied
        name, typ, expr = ch.choice("live_default", [("stream", "TextIO", "sys.stdout"), ("lock", "object", "threading.Lock()"), ("backend", "object", "sys")])
        desc["params"].append({"name": name, "typ": typ, "doc": "the %s to use" % name, "default": {"code": expr}})
        src = "import sys\nimport threading\nfrom typing import *\n\n\n" + render.render_function(desc, "train", body=body, inline_types=ch.chance("inl", 0.6))
    elif kind == "method_in_class":
        src = render.render_function(desc, "train", ftype="self", body=body)
    elif kind == "class":
        src = render.render_class(desc, "Config", quote_code=ch.chance("quote_code", 0.7))
        if with_body:
            src += "\n    def __init__(self, %sextra: int = 1):" % ("/, " if ch.chance("posonly", 0.4) else "") + "\n        \"\"\"\n        Construct.\n\n        :param extra: the extra\n        \"\"\"\n        self.extra = extra\n"
    else:
        src = render.render_argparse(desc, docstring=not (desc.get("returns") is None and ch.chance("nodoc", 0.3)))
    if kind in ("function", "method_in_class") and ch.chance("emptydoc", 0.2):
        # a docstring that is present but empty, every parameter defaulted (what emit.function writes for a bare description)
        first = "self, " if kind == "method_in_class" else ""
        args = ", ".join("%s=%s" % (p["name"], render.lit(p["default"]) if p["default"] is not None else "None") for p in desc["params"])
        src = 'def train(%s%s):\n    """ """\n    return %s\n' % (first, args, desc["params"][0]["name"])
    if kind == "function" and ch.chance("noparams", 0.1):
        # a description without any parameter, but with a return entry (numpydoc: the ReST parser needs at least one field)
        src = 'def train() -> int:\n    """\n    Fetch the answer.\n\n    Returns\n    -------\n    int\n        the answer\n    """\n    return 42\n'
    if kind == "argparse" and ch.chance("splitdesc", 0.25):
        # the description spelled as two literals joined by `+` (a hand-written function)
        import re as _re

        src = _re.sub(r"argument_parser\.description = '([^' ]+) ([^']*)'", lambda m: "argument_parser.description = '%s ' + '%s'" % (m.group(1), m.group(2)), src, count=1)
    if kind == "argparse" and "\n    return argument_parser, " in src and ch.chance("triple", 0.6):
        # a hand-written function that returns more than the parser and one value
        src = src.rstrip("\n") + ", 480\n"
    if kind != "live_function" and ch.chance("qualified", 0.25):
        # annotations spelled through the module (typing.Optional[int], List[typing.Any]): names nested inside a subscript
        src = src.replace(": Optional[", ": typing.Optional[").replace(": Literal[", ": typing.Literal[").replace("Optional[List[", "Optional[typing.List[")
    return {"seed": seed, "kind": kind, "src": src, "with_ret": with_ret, "with_body": with_body}


_live = {"n": 0, "dir": None, "pid": None}


def _live_object(src, name):
    """Import `src` as a module from a file (inspect.getsource needs the file for as long as the object is parsed) and
    return its attribute `name`.  The directory lives as long as this worker and is removed when it exits."""
    import atexit
    import importlib.util
    import shutil
    import tempfile

    if _live["dir"] is None:
        _live["dir"], _live["pid"] = tempfile.mkdtemp(prefix="dtsim-live-"), os.getpid()

        def cleanup(d=_live["dir"], pid=_live["pid"]):
            if os.getpid() == pid:
                shutil.rmtree(d, ignore_errors=True)

        atexit.register(cleanup)
    _live["n"] += 1
    modname = "dtsim_live_%d" % _live["n"]
    path = os.path.join(_live["dir"], modname + ".py")
    with open(path, "w") as f:
        f.write(src)
    spec = importlib.util.spec_from_file_location(modname, path)
    mod = importlib.util.module_from_spec(spec)
    spec.loader.exec_module(mod)
    return getattr(mod, name)


def build(state):
    # the tree as doctrans' own front end hands it out (annotated with locations): find_in_ast is *specified* to
    # work on annotated trees, so "annotate, then find" differing from "find on a bare tree" is not interference
    p = _ns.parse
    if state["kind"] == "live_function":
        S = p.function(_live_object(state["src"], "train"))
        if S.get("returns") is None:
            S["returns"] = None
        T, U = _ns.st.ast_parse(state["src"]), _ns.st.ast_parse(state["src"])
        for tree in (T, U):
            tree.body = [n for n in tree.body if isinstance(n, ast.FunctionDef)]
        return S, T, U
    T = _ns.st.ast_parse(state["src"])
    node = T.body[0]
    if state["kind"] == "class":
        S = p.class_(node)
    elif state["kind"] == "argparse":
        S = p.argparse_ast(node)
    else:
        S = p.function(node)
    if S.get("returns") is None:
        S["returns"] = None
    U = _ns.st.ast_parse(state["src"])
    return S, T, U


def call(op, S, T, U):
    try:
        r = op(S, T, U)
        return core.canon(r)
    except Exception as e:
        return "EXC:%s" % type(e).__name__


def explore(state, seq_len=3, sample4=0, only=None):
    """Enumerate all sequences of length <= seq_len (prefix tree, deep copy per node) and `sample4` seeded
    sequences of length 4.  Returns (violations, stats)."""
    setup()
    ops = _ops()
    names = [n for n, _ in ops]
    try:
        S0, T0, U0 = build(state)
    except Exception as e:
        # the parser rejects this definition outright (alone, in a pristine process): there is no shared description to
        # interfere through; counted, not judged (a crash on a legal input is C20's / C19's subject)
        return [], {"sequences": 0, "calls": 0, "ref_exceptions": 0, "hidden_process_state": 0, "unbuildable": type(e).__name__}
    # reference results: each call alone, on a pristine copy, in a forked child - a process that has done nothing else
    from dtsim import fs

    def refs():
        out = {}
        for n, f in ops:
            _fresh()
            S, T, U = clone((S0, T0, U0))
            out[n] = call(f, S, T, U)
        return out

    def ref_one(n, f):
        def run():
            _fresh()
            S, T, U = clone((S0, T0, U0))
            return call(f, S, T, U)
        return fs.run_forked(run)

    ref = {n: ref_one(n, f) for n, f in ops}
    viols = {}
    stats = {"sequences": 0, "calls": 0, "ref_exceptions": sum(1 for v in ref.values() if v.startswith("EXC:"))}
    # Do the calls leave anything behind in the process (caches, module-level containers)?  If not, a history's result
    # is a function of the shared (S, T) alone and the prefix tree below is exact.  If they do, every history is executed
    # from a process in its import-time state (slower, so the length-3 level is sampled instead of enumerated).
    _fresh()
    for n, f in ops:
        S, T, U = clone((S0, T0, U0))
        call(f, S, T, U)
    hidden = _proc.dirty() if _proc is not None else []
    _fresh()
    stats["hidden_process_state"] = 1 if hidden else 0

    def run_seq(seq):
        _fresh()
        S, T, U = clone((S0, T0, U0))
        stats["sequences"] += 1
        for k, n in enumerate(seq):
            got = call(dict(ops)[n], S, T, U)
            stats["calls"] += 1
            if got != ref[n]:
                culprit = minimal_culprit(ops, S0, T0, list(seq[:k]), n, ref, U0)
                key = (tuple(culprit), n)
                if key not in viols:
                    viols[key] = {"seq": list(seq[: k + 1]), "culprits": culprit, "victim": n, "got": got[:300], "want": ref[n][:300]}
                return

    if hidden and only is None:
        for L in (1, 2):
            for seq in itertools.product(names, repeat=L):
                run_seq(seq)
        chh = Chooser(state["seed"]).fork("hidden")
        for i in range(600):
            run_seq([chh.choice("h%d.%d" % (i, k), names) for k in range(3 if i % 2 else 4)])
        return list(viols.values()), stats

    def rec(prefix, S, T, U, depth):
        for n, f in ops:
            if depth == 0:
                _fresh()
            S2, T2, U2 = clone((S, T, U))
            got = call(f, S2, T2, U2)
            stats["calls"] += 1
            stats["sequences"] += 1
            seq = prefix + [n]
            if got != ref[n]:
                culprit = minimal_culprit(ops, S0, T0, prefix, n, ref, U0)
                key = (tuple(culprit), n)
                if key not in viols:
                    viols[key] = {"seq": seq, "culprits": culprit, "victim": n, "got": got[:300], "want": ref[n][:300]}
                continue  # what follows a divergence is not trusted
            if depth + 1 < seq_len:
                rec(seq, S2, T2, U2, depth + 1)

    if only is not None:
        _fresh()
        S, T, U = clone((S0, T0, U0))
        ok = True
        for n in only:
            f = dict(ops)[n]
            got = call(f, S, T, U)
            stats["calls"] += 1
            if got != ref[n]:
                culprit = minimal_culprit(ops, S0, T0, only[: only.index(n)] if only.count(n) == 1 else only[:-1], n, ref, U0)
                viols[(tuple(culprit), n)] = {"seq": list(only), "culprits": culprit, "victim": n, "got": got[:300], "want": ref[n][:300]}
                break
        stats["sequences"] = 1
        return list(viols.values()), stats
    rec([], S0, T0, U0, 0)
    if sample4:
        ch = Chooser(state["seed"]).fork("len4")
        for i in range(sample4):
            seq = [ch.choice("s%d.%d" % (i, k), names) for k in range(4)]
            _fresh()
            S, T, U = clone((S0, T0, U0))
            stats["sequences"] += 1
            for k, n in enumerate(seq):
                got = call(dict(ops)[n], S, T, U)
                stats["calls"] += 1
                if got != ref[n]:
                    culprit = minimal_culprit(ops, S0, T0, seq[:k], n, ref, U0)
                    key = (tuple(culprit), n)
                    if key not in viols:
                        viols[key] = {"seq": seq[: k + 1], "culprits": culprit, "victim": n, "got": got[:300], "want": ref[n][:300]}
                    break
    return list(viols.values()), stats


def minimal_culprit(ops, S0, T0, prefix, victim, ref, U0=None):
    """Smallest sub-sequence of `prefix` (tried: each single op, then the whole prefix) after which `victim` diverges."""
    table = dict(ops)
    for n in prefix:
        _fresh()
        S, T, U = clone((S0, T0, U0))
        call(table[n], S, T, U)
        if call(table[victim], S, T, U) != ref[victim]:
            _fresh()
            return [n]
    _fresh()
    return list(prefix)


# --------------------------------------------------------------------------- worker
def worker_main():
    setup()
    core.worker_loop(alias_worker)


def alias_worker(task):
    if task["kind"] == "explore":
        state = make_state(task["seed"])
        v, st = explore(state, seq_len=task.get("seq_len", 3), sample4=task.get("sample4", 0))
        return {"violations": v, "stats": st, "state": {k: state[k] for k in ("seed", "kind", "with_ret", "with_body")}, "src": state["src"] if v or task.get("want_src") else None}
    if task["kind"] == "replay":
        v, st = explore(task["state"], only=task["seq"])
        return {"violations": v, "stats": st}
    raise HarnessError("unknown alias task %r" % task["kind"])


# ---------------------------------------------------------------------------- check
def _sig(v, state):
    return {"property": "C13", "oracle": "I-interference", "victim": v["victim"], "culprits": v["culprits"], "state_kind": state["kind"]}


def run_check(prop, tier):
    t0 = time.monotonic()
    base = core.base_seed()
    known = core.load_known()
    n = 72 if tier == "quick" else 3000
    if "DTSIM_RUNS" in os.environ:
        n = int(os.environ["DTSIM_RUNS"])
    budget = float(os.environ.get("DTSIM_BUDGET_S", "420" if tier == "quick" else "900"))
    tasks = [{"tid": "a%d" % i, "kind": "explore", "seed": core.run_seed(base, i), "seq_len": 3, "sample4": 40 if tier == "quick" else 200, "want_src": i < 2}
             for i in range(n)]
    results, pstats = core.run_pool("alias", tasks, task_timeout=300.0, budget_s=budget)
    stats = {"sequences": 0, "calls": 0, "descriptions": 0, "ref_exceptions": 0, "hidden_process_state": 0}
    kinds = {}
    new = {}
    known_hit = {}
    samples = []
    pairs_seen = set()
    for t in tasks:
        r = results.get(t["tid"])
        if r is None:
            continue
        if "harness_error" in r:
            raise HarnessError(r["harness_error"])
        stats["descriptions"] += 1
        for k in ("sequences", "calls", "ref_exceptions", "hidden_process_state"):
            stats[k] += r["stats"].get(k, 0)
        st = r["state"]
        cell = "%s|ret=%s|body=%s" % (st["kind"], st["with_ret"], st["with_body"])
        kinds[cell] = kinds.get(cell, 0) + 1
        if len(samples) < 2 and r.get("src"):
            samples.append({"state": st, "source": r["src"], "example_history": ["emit.class_", "emit.function", "emit.argparse"]})
        for v in r["violations"]:
            sig = _sig(v, st)
            k = core.known_for(sig, known)
            if k:
                known_hit.setdefault(k["id"], [k, 0])[1] += 1
            else:
                new.setdefault(core.digest(sig), {"sig": sig, "v": v, "seed": t["seed"]})
    lines = []
    for k in known:
        if k["property"] != prop:
            continue
        if k["id"] in known_hit:
            lines.append("KNOWN-FINDING: property=%s %s [%s, seen %d times in this run]" % (prop, k["text"], k["id"], known_hit[k["id"]][1]))
        else:
            lines.append("NOTE: open finding %s of %s did not occur in this run: %s" % (k["id"], prop, k["text"][:100]))
    # stored replays
    for sub in ("regressions", "findings"):
        d = os.path.join(core.VERIF, sub)
        for name in sorted(os.listdir(d)) if os.path.isdir(d) else []:
            if not name.endswith(".json"):
                continue
            with open(os.path.join(d, name)) as f:
                doc = json.load(f)
            if doc.get("engine") != "alias":
                continue
            rr, _ = core.run_pool("alias", [{"tid": "x", "kind": "replay", "state": doc["state"], "seq": doc["seq"]}], nworkers=1)
            if any(_sig(v, doc["state"]) == doc["expect_sig"] for v in rr["x"]["violations"]) and core.known_for(doc["expect_sig"], known) is None:
                new.setdefault(core.digest(doc["expect_sig"]), {"stored": os.path.join(d, name), "sig": doc["expect_sig"]})
    nviol = 0
    max_report = int(os.environ.get("DTSIM_MAX_REPORT", "6"))
    for sd, item in sorted(new.items())[:max_report]:
        if "stored" in item:
            lines.append("VIOLATION property=%s replay=%s" % (prop, item["stored"]))
            nviol += 1
            continue
        state = make_state(item["seed"])
        seq = item["v"]["culprits"] + [item["v"]["victim"]]
        doc = {"property": prop, "engine": "alias", "expect_sig": item["sig"], "state": state, "seq": seq, "seed": item["seed"],
               "detail": "after %s on the shared IR/AST, %s gives %s instead of %s" % (item["v"]["culprits"], item["v"]["victim"], item["v"]["got"][:160], item["v"]["want"][:160]),
               "repo_tree_hash": core.repo_tree_hash()}
        d = os.path.join(core.VERIF, "replays")
        os.makedirs(d, exist_ok=True)
        path = os.path.join(d, "%s-%s-%s.json" % (prop, sd[:10], item["seed"]))
        with open(path, "wt") as f:
            json.dump(doc, f, indent=1, sort_keys=True)
        p = subprocess.run([core.PYTHON, "-W", "ignore", core.LAUNCHER, "replay", path], env=core.worker_env(), cwd=core.VERIF, stdout=subprocess.PIPE, stderr=subprocess.PIPE, timeout=300)
        if not (p.returncode == EXIT_VIOLATION and b"REPRODUCED" in p.stdout):
            sys.stderr.write(p.stdout.decode(errors="replace")[-1500:] + p.stderr.decode(errors="replace")[-1500:])
            raise HarnessError("HARNESS-ERROR nonrepro: %s" % path)
        lines.append("VIOLATION property=%s replay=%s" % (prop, path))
        lines.append("  signature: %s" % json.dumps(item["sig"], sort_keys=True))
        lines.append("  detail: %s" % doc["detail"])
        nviol += 1
    if len(new) > max_report:
        nviol += len(new) - max_report
        lines.append("  (%d further distinct violation signatures not minimised)" % (len(new) - max_report))
    wall = time.monotonic() - t0
    nops = 20
    cov = {
        "evaluations": stats["sequences"],
        "distinct_nontrivial": len(kinds),
        "rule": ("per generated definition (function / method / class / argparse function; with and without return entry; with and without carried body) ALL sequences of "
                 "length <= 3 over a %d-letter alphabet of emit/parse calls on one shared IR and one shared AST are enumerated (%d sequences; complete for that length), plus "
                 "seeded sequences of length 4; an evaluation is one sequence; each call's result is compared with the same call on a pristine deep copy; distinct_nontrivial "
                 "counts distinct (definition kind, return entry, carried body) classes of shared state" % (nops, nops + nops ** 2 + nops ** 3)),
        "samples": samples or [{"note": "none"}],
        "descriptions": stats["descriptions"],
        "calls": stats["calls"],
        "reference_calls_that_raise": stats["ref_exceptions"],
        "descriptions_where_calls_left_process_state_behind": stats["hidden_process_state"],
        "state_classes": kinds,
        "alphabet": [n for n, _ in _alphabet_names()],
        "exhaustive_for_length_le_3_per_description": True,
        "exhaustive": False,
        "sequences_per_hour": round(stats["sequences"] / wall * 3600) if wall else 0,
        "known_findings_hit": {fid: c for fid, (_k, c) in known_hit.items()},
        "fault_kinds": "none: the history (order and repetition of calls on shared objects) is the only nondeterminism this property depends on",
        "real_components": ["doctrans emit/parse/ast_utils/source_transformer"],
        "simulated_components": ["the caller that shares one IR / AST between conversions (as conformance.ground_truth does)"],
    }
    core.write_evidence(prop, tier, base, "exploration", cov, wall, nviol,
                        ["reference model = the same call on a deep copy taken before the history starts: a consistent bug is invisible by construction (C13 is about interference, not fidelity)",
                         "a call that raises is compared by exception class", "PYTHONHASHSEED=0 in workers"])
    for ln in lines:
        print(ln)
    print("%s %s: %d descriptions, %d sequences, %d calls, %.1fs, %d violation signature(s), %d known finding(s)" % (prop, tier, stats["descriptions"], stats["sequences"], stats["calls"], wall, nviol, len(known_hit)))
    return EXIT_VIOLATION if nviol else EXIT_OK


def _alphabet_names():
    return [(n, None) for n in ["emit.class_", "emit.class_call", "emit.class_docs", "emit.function", "emit.function_docs", "emit.function_same", "emit.argparse_same", "emit.argparse", "emit.argparse_doc", "emit.docstring_rest",
                                "emit.docstring_numpydoc", "emit.docstring_google", "sync.composite", "parse.T", "to_code.T", "parse.U", "parse.U_merge", "find_in_ast.U", "annotate_ancestry.U", "to_code.U"]]


def replay(doc, path):
    setup()
    v, st = explore(doc["state"], only=doc["seq"])
    print("replay %s: property=C13 history=%s" % (path, doc["seq"]))
    for x in v:
        print("  after %s, %s gives %s\n     instead of %s" % (x["culprits"], x["victim"], x["got"][:200], x["want"][:200]))
    if any(_sig(x, doc["state"]) == doc["expect_sig"] for x in v):
        print("REPRODUCED property=C13 signature=%s" % json.dumps(doc["expect_sig"], sort_keys=True))
        print("VIOLATION property=C13 replay=%s" % path)
        return EXIT_VIOLATION
    print("NOT-REPRODUCED")
    return EXIT_OK
