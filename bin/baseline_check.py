#!/venv/bin/python
"""Run the repository's pinned baseline suite (guard off) and compare with /root/.vp/BASELINE.json:
every stable_pass test must still pass.  Usage: baseline_check.py [repo_dir]"""
import json, os, subprocess, sys, tempfile
import xml.etree.ElementTree as ET

repo = sys.argv[1] if len(sys.argv) > 1 else "/repo"
base = json.load(open("/root/.vp/BASELINE.json"))
fd, out = tempfile.mkstemp(suffix=".xml", dir="/dev/shm" if os.path.isdir("/dev/shm") else None)
os.close(fd)
env = dict(os.environ)
env.pop("DOCTRANS_VERIF", None)
env["PYTHONDONTWRITEBYTECODE"] = "1"
if repo != "/repo":
    env["PYTHONPATH"] = repo
p = subprocess.run(["/venv/bin/python", "-W", "ignore", "-m", "pytest", "-q", "-p", "no:cacheprovider", "--timeout=900",
                    "--continue-on-collection-errors", "--junitxml=" + out], cwd=repo, env=env, stdout=subprocess.PIPE, stderr=subprocess.STDOUT)
passed = set()
for tc in ET.parse(out).getroot().iter("testcase"):
    if not any(ch.tag in ("failure", "error", "skipped") for ch in tc):
        passed.add("%s::%s" % (tc.get("classname"), tc.get("name")))
os.remove(out)
missing = [t for t in base["stable_pass"] if t not in passed]
print(p.stdout.decode().strip().splitlines()[-1])
print("stable_pass: %d expected, %d of them passed, %d passed in total" % (len(base["stable_pass"]), len(base["stable_pass"]) - len(missing), len(passed)))
for t in missing:
    print("REGRESSION", t)
sys.exit(1 if missing else 0)
