#!/bin/bash
# usage: soak.sh "<props>" <seed-from> <seed-to> [tier]   - runs the checks under many VERIF_SEED values; prints only what needs attention
here=$(cd "$(dirname "$0")/.." && pwd)
tier=${4:-quick}
for s in $(seq $2 $3); do
  for p in $1; do
    out=$(VERIF_SEED=$s timeout 3600 /venv/bin/python $here/bin/dtsim check $p --tier $tier 2>&1); rc=$?
    echo "seed=$s $p rc=$rc $(echo "$out" | tail -1)"
    if [ $rc -ne 0 ]; then echo "$out" | grep -v "^KNOWN-FINDING" | head -40; fi
  done
done
